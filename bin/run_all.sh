#!/bin/bash
# bin/run_all.sh <quick|thorough> : run every claimed check of MANIFEST.json in turn, print one line per check
TIER=${1:-quick}
HERE=$(cd "$(dirname "$0")/.." && pwd)
export VERIF_DIR="$HERE"
cd "$HERE"
for P in $(python3 -c "import json;print(' '.join(c['property_id'] for c in json.load(open('MANIFEST.json'))['checks']))"); do
  S=$(date +%s)
  OUT=$(bin/check $P $TIER 2>&1); RC=$?
  E=$(( $(date +%s) - S ))
  echo "== $P rc=$RC ${E}s :: $(echo "$OUT" | grep -E '^summary' | tail -1)"
  echo "$OUT" | grep -E '^(violation|VIOLATION|KNOWN-FINDING|HARNESS-ERROR|\(also\))' | cut -c1-600
done
