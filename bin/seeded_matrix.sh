#!/bin/bash
# bin/seeded_matrix.sh [names...] : for every seeded change: apply it to /repo, run the quick check of its own
# property (plus extra properties listed in seeded/<n>/also.txt), record the verdicts in seeded/<n>/detected.json, revert.
V=$(cd "$(dirname "$0")/.." && pwd); cd $V
NAMES=${@:-$(ls seeded)}
for N in $NAMES; do
  P=${N%-*}
  git -C /repo diff --quiet || { echo "refusing: /repo has local changes"; exit 2; }
  if ! git -C /repo apply $V/seeded/$N/patch.diff 2>/dev/null; then echo "$N: patch does not apply"; continue; fi
  RES="{"
  for Q in $P $(cat seeded/$N/also.txt 2>/dev/null); do
    OUT=$(bin/check $Q quick 2>&1); RC=$?
    KEYS=$(echo "$OUT" | grep -E '^violation' | sed -E 's/.*key=([^ ]+) detail=.*/\1/' | sort -u | head -6 | tr '\n' ' ')
    WALL=$(echo "$OUT" | grep -oE 'wall=[0-9.]+s' | tail -1)
    RES="$RES\"$Q\": {\"exit\": $RC, \"$WALL\": true, \"violation_keys\": \"$KEYS\"}, "
    echo "$N :: $Q rc=$RC $WALL $KEYS"
  done
  git -C /repo checkout -- .
  echo "${RES%, }}" > seeded/$N/detected.json
done
bin/check C01 quick >/dev/null 2>&1  # leave the binary built from the clean tree
