#!/bin/bash
# bin/confirm_seeded.sh <seeded-name> : confirm a seeded change in a scratch worktree of /repo (outside /repo and /verif):
#   the patch applies to HEAD, the pinned suite still passes with it, the demonstration passes without and fails with it.
# Writes seeded/<name>/confirm.json and removes the worktree with its build output.
N=$1
V=$(cd "$(dirname "$0")/.." && pwd)
S=$V/seeded/$N
WT=/tmp/wtc-$N
X=$(echo "${N##*-}" | tr 'A-Z' 'a-z')
rm -rf $WT; git -C /repo worktree prune
git -C /repo worktree add -q --detach $WT HEAD || exit 2
cp -r /repo/target $WT/target 2>/dev/null
cd $WT
FEAT=$(grep -oE -- "--features [a-z,]+" $S/demo.rs | head -1)
EXTRA=$(grep -oE -- "-- --test-threads 1" $S/demo.rs | head -1)
applies=false; suite=unknown; demo_without=unknown; demo_with=unknown
if git apply --check $S/patch.diff 2>/dev/null; then applies=true; fi
if $applies; then
  cp $S/demo.rs tests/seeded_$X.rs
  if timeout 1500 cargo test --offline $FEAT --test seeded_$X $EXTRA > /tmp/wtc-$N.without.log 2>&1; then demo_without=pass; else demo_without=fail; fi
  rm tests/seeded_$X.rs
  git apply $S/patch.diff
  if timeout 1500 cargo nextest run --workspace --no-fail-fast --offline --test-threads 8 > /tmp/wtc-$N.suite.log 2>&1; then suite=$(grep -oE "[0-9]+ passed" /tmp/wtc-$N.suite.log | tail -1); else suite="FAILED: $(grep -E 'Summary' /tmp/wtc-$N.suite.log | tail -1)"; fi
  cp $S/demo.rs tests/seeded_$X.rs
  if timeout 1500 cargo test --offline $FEAT --test seeded_$X $EXTRA > /tmp/wtc-$N.with.log 2>&1; then demo_with=pass; else demo_with=fail; fi
fi
HEAD=$(git -C /repo log --format=%h -1)
cat > $S/confirm.json <<JSON
{"seeded": "$N", "repo_head": "$HEAD", "patch_applies_to_head": $applies, "pinned_suite_with_patch": "$suite", "demo_without_patch": "$demo_without", "demo_with_patch": "$demo_with",
 "commands": ["git apply seeded/$N/patch.diff", "cargo nextest run --workspace --no-fail-fast --offline --test-threads 8", "cp seeded/$N/demo.rs tests/seeded_$X.rs && cargo test --offline $FEAT --test seeded_$X $EXTRA"]}
JSON
cd /; git -C /repo worktree remove --force $WT; rm -f /tmp/wtc-$N.*.log.keep
cat $S/confirm.json
