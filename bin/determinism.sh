#!/bin/bash
# bin/determinism.sh [tier] [seeds...] : determinism proof across processes and worker counts.
# For every claimed property and every seed the check is executed three times in fresh processes:
# with 16 worker processes, with 5, and with 16 again. The digest printed by the harness is the
# wrapping sum over all repeatable runs of hash(scenario, run index, outcome fingerprint = outcome
# hash, work, violation keys, every counter incl. event-log hashes and schedule lengths), so it is
# equal iff every run produced the same outcome, however the run indices were distributed over
# the workers and whatever their completion order. Writes determinism/<tier>.json; exit 1 on any
# difference.
V=$(cd "$(dirname "$0")/.." && pwd); cd $V
TIER=${1:-quick}; shift
SEEDS=${@:-"20261002 7 31337"}
PROPS=$(python3 -c "import json;c=json.load(open('MANIFEST.json'))['checks'];print(' '.join(sorted(set((x.get('property_id') or x.get('property') or x.get('id')) for x in (c if isinstance(c,list) else c.values())))))")
bin/check --build-only || exit 2
mkdir -p determinism
OUT=determinism/$TIER.json
echo "[" > $OUT.tmp
BAD=0; FIRST=1
for P in $PROPS; do
  for S in $SEEDS; do
    D=()
    for W in 16 5 16; do
      L=$(VERIF_NO_EVIDENCE=1 VERIF_SEED=$S VERIF_WORKERS=$W bin/check $P $TIER 2>&1 | grep -E '^digest:|^summary:' | tr '\n' ' ')
      D+=("$(echo "$L" | grep -oE 'runs=[0-9]+ outcome_digest=[0-9a-f]+')|$(echo "$L" | grep -oE 'violations=[0-9]+ harness_errors=[0-9]+')")
    done
    OK=true; [ "${D[0]}" = "${D[1]}" ] && [ "${D[0]}" = "${D[2]}" ] || { OK=false; BAD=1; }
    echo "$P seed=$S ${D[0]} same_with_5_workers_and_on_repetition=$OK"
    [ $FIRST = 1 ] || echo "," >> $OUT.tmp; FIRST=0
    echo "{\"property\": \"$P\", \"seed\": $S, \"tier\": \"$TIER\", \"workers_16\": \"${D[0]}\", \"workers_5\": \"${D[1]}\", \"workers_16_again\": \"${D[2]}\", \"identical\": $OK}" >> $OUT.tmp
  done
done
echo "]" >> $OUT.tmp; mv $OUT.tmp $OUT
exit $BAD
