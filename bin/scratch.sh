#!/bin/bash
# bin/scratch.sh <seeded-name|--sed file expr> <PROP> [PROP...] : sensitivity probe in the parallel scratch workspace
# (/tmp/verif${SCRATCH:-2} built against the git worktree /tmp/repo${SCRATCH:-2}), so that /repo stays untouched while sweeps run.
V=$(cd "$(dirname "$0")/.." && pwd)
rsync -a --exclude target --exclude replays --exclude .git --exclude evidence --exclude Cargo.lock $V/ /tmp/verif${SCRATCH:-2}/
git -C /tmp/repo${SCRATCH:-2} checkout -q -- . ; git -C /tmp/repo${SCRATCH:-2} checkout -q --detach $(git -C /repo rev-parse HEAD) 2>/dev/null
if [ "$1" = "--sed" ]; then
  F=$2; E=$3; shift 3
  sed -i -E "$E" /tmp/repo${SCRATCH:-2}/$F
  git -C /tmp/repo${SCRATCH:-2} diff --quiet && { echo "MUTATION DID NOT APPLY"; exit 3; }
  git -C /tmp/repo${SCRATCH:-2} diff | grep -E '^[-+][^-+]' | head -4
else
  N=$1; shift
  git -C /tmp/repo${SCRATCH:-2} apply $V/seeded/$N/patch.diff || { echo "$N: patch does not apply"; exit 3; }
  echo "== $N"
fi
for P in "$@"; do
  (cd /tmp/verif${SCRATCH:-2} && VERIF_REPO=/tmp/repo${SCRATCH:-2} VERIF_DIR=/tmp/verif${SCRATCH:-2} bin/check $P quick 2>&1 | grep -E "^violation|^summary|HARNESS" | cut -c1-330 | head -5)
done
git -C /tmp/repo${SCRATCH:-2} checkout -q -- .
