#!/usr/bin/env python3
"""Regenerates /verif/MANIFEST.json from the table below (single source of truth for the interface)."""
import json, subprocess, os
V = os.path.dirname(os.path.dirname(os.path.abspath(__file__)))
props = [json.loads(l) for l in open(os.path.join(V, 'properties.jsonl'))]
ids = [p['id'] for p in props]

# id -> (level, technique, level text, level note, design_ref)
CLAIMED = {
 'C01': ('exploration', 'deterministic simulation of the chain against scripted parties: injected acceptance draws (crafted generator states) + scripted Target/Proposal tables incl. -inf/+inf/NaN; exact kernel extraction by bisection over the injected draw',
         'The real MHMarkovChain::step runs against table-driven Target/Proposal stubs (finite values, -inf, +inf, NaN, asymmetric q, zero moves) while the acceptance draw is injected through the public rng field (uniform raw words, the extremes, the three representable draws bracketing the threshold, constructed exact ties). Every step is compared with the reference rule evaluated in the same float type (f64/f32, float and integer states, bitwise state preservation). On random finite spaces the exact acceptance probability of every ordered pair is extracted by bisection and detailed balance, zero-density exclusion and pi P = pi are checked.',
         'Trusts: the crafted xoshiro256++ state (self-checked against rand at start-up); dyadic table values make all sums exact, generic reals within 16 ulp of the threshold are counted ambiguous and not judged.', '3/C01'),
 'C02': ('exploration', 'deterministic simulation of the randomness and target seams: traced momenta/uniforms of every step fed to an independent f64 leapfrog + Metropolis reference, per row, with condition-aware tolerances; reversibility and row-independence metamorphic runs',
         'Real HMC::step on Autodiff<NdArray<f64>> and <f32> against dual targets (burn code for the library, analytic f64 log-density and gradient for the reference): Gaussians d 1..16 with random SPD precision, the library Gaussian/Rosenbrock targets, Student-t, quartic, funnel; 1..32 chains, eps 1e-4..1e3 incl. unstable, L 0..64, histories of 1..10 steps (steps after rejections counted). Per row: proposal = exactly L velocity-Verlet steps from the traced (x, p), decision ln u <= H - H_prop from the traced quantities, new row bitwise the proposal or bitwise the old row, no influence between rows (one row perturbed, same draws), integrator reversible.',
         'Trusts: the draw trace (hook H5) reports the tensors actually used; tolerance from the measured amplification of a few-ulp input perturbation through the reference; rows whose tolerance exceeds 5% of the scale and decisions inside the rounding margin are counted, not judged.', '3/C02'),
 'C03': ('exploration', 'deterministic simulation of the randomness and target seams: every NUTS transition replayed through an independent f64 implementation of Algorithm 6 fed the traced draws by role, with margin-aware discrete decisions; build_tree also exercised in isolation',
         'Real NUTSChain::run (f64 and f32 backends) on dual targets (Gaussians d 1..8 with random precision, library Gaussian/Rosenbrock, Student-t, quartic, funnel; very wide Gaussians for trees of depth 11; bounded-support / NaN-region targets whose leaves of -inf or NaN energy are outside the slice and end the doubling; f64 log-densities with additive constants 1e2..1e9) with step sizes from the start-up heuristic through dual averaging to the frozen value. Per transition the reference consumes the traced momentum, slice level, directions, merge uniforms (recursion order) and accept uniforms and must agree on depth, stopping (U-turn / stopped sub-tree / divergence), number of leapfrogs, n, alpha/n_alpha and the next state; the private build_tree is called through its wrapper for depth 0..10, both directions, slice levels from above the start to 1000 below it, incl. an exactly representable family in which U-turn products are exactly 0 (ties are judged, not skipped).',
         'Trusts: the draw trace (hook H4); decisions whose margin (from a shadow trajectory started a few ulps away) contains the threshold make the transition ambiguous: counted (well below 1%), not judged.', '3/C03'),
 'C04': ('exploration', 'deterministic simulation over call histories: reference dual-averaging recurrence driven by the traced per-transition statistics, freeze invariant across run() calls, positivity/finiteness, eps0 by its defining property',
         'Histories of 1-4 run() calls on one seeded NUTSChain (the warm-up counter persists; 1 history in 3 re-seeds the chain between calls), requested rates 0.5..0.99, warm-ups 0..40 (thorough: up to 2000), smooth targets plus half-line/box targets. After every transition: the statistic fed into the recurrence equals the one Algorithm 6 assigns on the traced draws (f64 log-densities with additive constants up to 1e9 included), counter, step size in force, H-bar, ln eps and ln eps-bar against the f64 recurrence (gamma .05, t0 10, kappa .75, mu = ln(10 eps) re-derived per call), after warm-up eps == eps-bar bitwise and unchanged for ever, eps and eps-bar positive and finite always; eps0 a power of two at the 1/2-acceptance crossing of the reference integrator; lenient statistical clause on long warm-ups.',
         'Trusts: the traced acceptance statistic (judged by C03); f32 chains are compared with tolerance 2e-5 and the model is re-synchronised after each transition.', '3/C04'),
 'C05': ('exploration', 'deterministic simulation against a recording Conditional stub: call-history oracle (order, exactly-once, freshest state) + exact kernel invariance on small joint tables; multi-chain runs under seeded schedules',
         'The real Gibbs step runs against a recording conditional that returns unique values: per step exactly d calls, each coordinate once, every given equal to the freshest state, the state after the step exactly the returned values, other chains untouched (checked for the multi-chain sampler under W simulated workers, and for 2-4 chains of different dimension stepped in a seeded interleaving on one thread). On random joint tables over {0,1,2}^d (d<=4) the one-step kernel is assembled from the true full conditionals evaluated at the given the library actually passed and pi K = pi is checked exactly.',
         'Trusts: the recording stub; reversed or permuted sweep orders are deliberately not violations (the statement fixes once-each and freshest-state, not the order).', '3/C05'),
 'C06': ('exploration', 'seeded sampling over the randomness seam only (weakest fit for this family, no fault or schedule): z-tests of per-chain time averages over K independent exactly-stationary chains + distribution / independence tests of the draws by role',
         'All four real samplers on targets with closed-form moments (correlated Gaussians, Poisson / table pmfs with an asymmetric walk (clamped at the edge in half of the runs), bivariate Gaussian via Gibbs conditionals), K >= 48..256 chains started from exact draws of the target so a correct kernel is stationary from step 0; means, second and cross moments, tail and pmf cells are z-tested (alarm at |z| > 7); the draws themselves (traced momenta, Exp(1) slice draws, directions, merge / accept uniforms, MH acceptance uniforms, proposal noise) are KS- and moment-tested against N(0,1), Exp(1), U(0,1), fair coin and checked for lag-1, cross-role and cross-chain correlation. Second scenario over API histories: restarts from exact draws assigned to the public state of an already-run sampler (>= 12000 iid replicates per run) and seeded samplers used in 40-80 short run() calls (pooled moments; first draws of consecutive calls uncorrelated).',
         'Statistical: a clean run is evidence that no bias above roughly 3-5% of a second moment exists at the explored configurations, nothing more; subtle invariance defects with small moment effects (e.g. a distorted slice level) are below its resolution and are the business of C01-C03.', '3/C06'),
 'C07': ('exploration', 'deterministic simulation: bit-equality with the sequential single-worker run under seeded schedules, simulated worker counts, concurrently interleaved samplers and progress mode',
         'Every sampler kind (MH f32/f64/discrete, Gibbs, HMC f32/f64, NUTS f32/f64 on Gaussian and Rosenbrock targets) is built twice from the same inputs and seed and run sequentially (reference), then run() executes under 1..16 simulated pool workers with a scheduling point per transition, 2-3 samplers are interleaved per transition in one process (1 in 3: all of them inside run_progress), 1 in 4 samplers goes through a history of 2-3 run() calls, and run_progress runs on simulated threads/clock: all outputs must be bit-identical to the reference (NUTS progress: shifted by one). Seeds include 0, 2^32, 2^63 and u64::MAX-k; a different seed must change the output once the chain has moved; the seeded initialisers are called from several simulated threads in different orders and inside real rayon pools of 1, 2, 3, 7 workers, with total sizes at the thresholds named in the sources.',
         'Trusts: shuttle; the work-claiming stub for the rayon pool (cross-checked against real pools on 1/8 of runs); MH proposals seeded by the harness (Proposal::set_seed) count as inputs; default (OS-entropy) construction is outside C07.', '3/C07'),
 'C08': ('exploration', 'deterministic simulation of the randomness seam: pairwise stream comparison between chains and between acceptance and proposal generators, through public generator fields, a user-defined spy proposal and the traced momenta',
         'Multi-chain MH (library proposal and a user-defined seedable proposal with a public generator), HMC batches and NUTS are built with defaults and seeded (special seeds incl. u64::MAX-k) with 2..64 chains all at one common state (seeds also next to the integer constants harvested from the shipped sources; HMC batches over states of dimension 1..5000 at size thresholds); for every pair of chains the proposal noise, acceptance generator states, traced momenta / acceptance draws and trajectories must differ, and in no chain may the acceptance generator equal the proposal generator; NUTS samplers are compared again after a second run.',
         'Trusts: SmallRng: PartialEq as the stream identity; default construction uses OS entropy (no seam): values vary, the verdict is structural (clones are equal for every entropy value).', '3/C08'),
 'C09': ('exploration', 'deterministic simulation: seeded schedules over simulated pool workers + transition-counter reference model over run() histories',
         'Seeded search over histories of run() calls on counting chains (state = chain id, transitions so far) executed by W simulated workers under random/PCT/sticky schedules with a scheduling point per transition; every returned cell, every chain counter and the state the sampler is left in are compared with the transition-counter model. Evidence, not proof: schedules and histories are sampled.',
         'Trusts: shuttle as the coroutine scheduler; the work-claiming stub standing in for rayon (cross-checked against real rayon pools on 10% of runs); NUTS/HMC own run() loops are covered by their scenarios, not by the stub chain.', '3/C09'),
 'C10': ('exploration', 'deterministic simulation with fault injection: seeded scheduler + simulated clock over the real progress protocol; receiver-drop fault enumerated over every message index, worker-crash fault at any transition',
         'The real run_progress protocol (reporter thread, per-chain channels, scoped workers) runs on simulated threads, channels and clock. Seeded random/PCT/sticky schedules, chain counts 1..48, clock regimes from frozen to one message per step, stalls of hours. Oracles: draws equal the transition-counter model, diagnostics equal RunStats::from(returned draws), no step-bound hit (hang), no deadlock, no panic, reporter exits within n_chains+5 polls after the last message; receiver dropped after j messages for every j; a chain worker that dies in transition j (threads with the crash semantics of std): the call must still end.',
         'Trusts: shuttle; the cost model of the simulated clock (any monotone clock is legal); hang verdicts rely on fair schedulers only (random, PCT with yield on sleep, round-robin sticky).', '3/C10'),
 'C13': ('exploration', 'deterministic simulation: update histories against f64 batch statistics of exactly the fed prefix; snapshots taken by real progress workers under the simulated clock and seeded schedules',
         'ChainTracker, collect_rhat and MultiChainTracker are driven by generated update histories (length 2..5000, 2..16 chains, 1..8 parameters, f64/f32/i32 states, agreeing and shifted chains, repeated states): count, mean, unbiased variance, the acceptance EMA recurrence and range are checked after every update, both R-hat figures against the classical sqrt(var+/W) at chosen prefixes. Real run_chain_progress workers on simulated threads/clock send snapshots to a stub listener: which prefix a snapshot covers is decided by the schedule and clock, and every snapshot must be the batch statistics of exactly that prefix; the R-hat combined from the snapshots present at a poll (chains at different counts) must not depend on the order of the trackers.',
         'Trusts: condition-aware tolerance 8*n*eps32*(1+mean^2/var); comparisons whose own bound exceeds 2% are counted, not judged.', '3/C13'),
 'C14': ('exploration', 'deterministic simulation with fault-returning targets: invariant after every transition of MH / HMC / NUTS runs on targets with bounded support, NaN regions, NaN gradients and overflowing step sizes; hang decided against the Algorithm 6 stopping point',
         'The targets are the fault injectors: -inf outside a half-line or box, NaN from log/sqrt of negative arguments, NaN beyond a radius, cliffs; proposals that leave the support and extreme candidates (inf, NaN, 1e308); HMC step sizes up to 3e38; starts of finite density incl. next to the boundary; acceptance draws down to 1 ulp injected (exactly 0 excepted). After every transition of every run: coordinates finite, the harness own f64 copy of the log-density finite, and a transition whose candidate was inadmissible left the state bitwise unchanged; no panic; a NUTS run cut off by the evaluation budget is a hang only if the library had doubled beyond the point where Algorithm 6 stops. Fault scenario: the target code panics once during a step and the caller catches it; the state must be admissible after that step and after every later one.',
         'Trusts: the f64 copy of each target; merely long trajectories (tiny adapted step sizes next to a boundary) are counted, not judged.', '3/C14'),
 'C16': ('exploration', 'deterministic simulation of the generator seam: injected uniform variates (crafted generator states) incl. the complete f32 variate space; reference inverse CDF with zero-probability exclusion',
         'Categorical::new / logp / sample run for real; the private OS-seeded generator is replaced (verification-only constructor) by a crafted state whose next output is chosen. Per weight vector (length 1..64, zeros anywhere, unnormalised): normalisation, bitwise logp, and sample() for the variates 0, 1 ulp, 1-ulp, the representable values around every cumulative boundary and random ones; for f32 vectors the complete space of 2^24 variates is enumerated (exhaustive per vector) and exact selection frequencies are compared with the probabilities. A zero-probability category is never acceptable.',
         'Trusts: the crafted generator state (self-checked); the set of weight vectors is sampled, the variate space per f32 vector is complete.', '3/C16'),
 'C17': ('fault_enumeration', 'deterministic simulation with fault injection on the disk seam: in-memory file with a fault plan, every write-call index x fault kind enumerated per input, round trip through the real readers',
         'The five save functions and the real csv / arrow-ipc / parquet writers run against the simulated disk. Per input (format x element type in turn, shapes 0..6 x 0..40 x 0..8 incl. empty axes, special values and arbitrary bit patterns, arrays in C / Fortran / axis-permuted / inverted / reversed memory layout) one fault-free save is read back with the crates own readers (one row per cell, labels per documented axis order, bit-exact values, header/schema), then one save per (write-call index, fault kind in {transient, sticky ENOSPC, EIO, short write, EINTR, zero write}) for EVERY write call of that file (sampled above 48 calls), every flush call and every create error; plus unwritable paths on the real file system (missing directory, directory, /dev/full, over-long component; short, long and non-ASCII file names). Oracle: never a panic; Ok implies a complete correct file.',
         'Trusts: the in-memory disk as a model of a failing file; readers of the same crate versions as the oracle for the file formats.', '3/C17'),
}
NA = {
 'C11': 'pure function of the sample array: no generator, clock, file, peer or shared state for a scheduler or fault to act on (input generation is not simulation); DESIGN.md section 3/C11',
 'C12': 'pure function of the sample array (same reason as C11); DESIGN.md section 3/C12',
 'C15': 'closed-form densities and autodiff gradients are pure functions of their arguments; nothing a schedule, clock or fault can influence; DESIGN.md section 3/C15',
 'C18': 'pure function of (n, d, seed) / OS entropy behind no seam; the purity clause is exercised inside C07; DESIGN.md section 3/C18',
}
PENDING = 'check not built yet in this revision (framework under construction, see DESIGN.md section 8); not claimed'

hooks_commits = subprocess.run(['git', '-C', '/repo', 'log', '--format=%H %s'], capture_output=True, text=True).stdout.splitlines()
hook_shas = [l.split()[0] for l in hooks_commits if 'verif hooks' in l]

checks = []
for i in ids:
    if i in CLAIMED:
        lvl, tech, text, note, ref = CLAIMED[i]
        checks.append({
            'property_id': i,
            'quick_cmd': f'bin/check {i} quick',
            'thorough_cmd': f'bin/check {i} thorough',
            'evidence_file': f'/verif/evidence/{i}.json',
            'replay_cmd_template': 'bin/check --replay {path}',
            'engine': 'vcheck',
            'level_claimed': {'category': lvl, 'text': text, 'design_ref': ref},
            'level_note': note,
            'technique': tech,
        })
na = []
for i in ids:
    if i in CLAIMED: continue
    na.append({'property_id': i, 'reason': NA.get(i, PENDING)})

m = {
 'version': 1,
 'setup_cmd': 'cd /verif && bin/check --build-only',
 'hooks': {
   'guard': 'mini_mcmc_verif',
   'enable': "rustc --cfg mini_mcmc_verif, emitted for the library only by the shadow manifest /verif/shadow (package mini-mcmc, [lib] path = a copy of /repo/src made by bin/check on every invocation in which `std::sync::` paths are redirected to the simulator's look-alike module; build.rs prints cargo:rustc-cfg=mini_mcmc_verif)",
   'baseline_off_cmd': 'cd /repo && cargo nextest run --workspace --no-fail-fast --offline --test-threads 8 || cargo test --workspace --no-fail-fast --offline',
   'source_commits': hook_shas,
   'add_only': True,
 },
 'engines': [
   {'name': 'mcmc_sim', 'path': '/verif/sim', 'serves_properties': sorted(CLAIMED), 'kind_free_text': 'simulator seams: seeded recording scheduler over shuttle coroutines, simulated clock, channels, work-claiming parallel iterator, in-memory disk with fault plan, role-tagged draw trace'},
   {'name': 'vcheck', 'path': '/verif/harness', 'serves_properties': sorted(CLAIMED), 'kind_free_text': 'scenarios, reference models, oracles, shrinker, replay, evidence writer; forks 16 worker processes'},
 ],
 'checks': checks,
 'not_applicable': na,
 'notes': 'Technique family: deterministic simulation with fault injection. One integer (VERIF_SEED, default 20261002) decides every generated program, schedule, clock cost and fault. exit 0 held / 1 VIOLATION / 2 harness error. Known findings: /verif/known_findings.txt.',
}
json.dump(m, open(os.path.join(V, 'MANIFEST.json'), 'w'), indent=1)
print('claimed', sorted(CLAIMED), 'na', [x['property_id'] for x in na])
