#!/usr/bin/env python3
"""Write seeded/<name>/meta.json from confirm.json + detected.json + a needs file.

usage: bin/gen_meta.py <round> <needs.json>
  needs.json: {"C01-E": "what the change needs in order to manifest", ...}
"""
import json, os, sys

SOURCES = {
    11: "fresh sub-agent given only the property text, one-line summaries of the twelve earlier changes against the same property, the instruction to think of failing callbacks, the order of two effects, clean-up, state surviving between calls or objects, Clone, conversions, special values, index arithmetic, interleavings, I/O faults and boundaries, a 20-25 minute limit, and its own scratch worktree of /repo (nothing from /verif)",
    10: "fresh sub-agent given only the property text, one-line summaries of the ten earlier changes against the same property, the instruction to think of failing callbacks, the order of two effects, clean-up, state surviving between calls or objects, Clone, conversions, special values, index arithmetic and boundaries, and its own scratch worktree of /repo (nothing from /verif)",
    9: "fresh sub-agent given only the property text, one-line summaries of the ten earlier changes against the same property, the instruction to think of error handling, clean-up, the order of two effects, protocol counters, check-then-act gaps, time / channel APIs, panicking callbacks, clones, conversions and special values, and its own scratch worktree of /repo (nothing from /verif)",
    8: "fresh sub-agent given only the property text, one-line summaries of the eight earlier changes against the same property, the instruction to think of failing user callbacks, the order of two effects, clean-up, state surviving between calls or objects, clones, scalar-type / backend conversions, special values and boundaries, and its own scratch worktree of /repo (nothing from /verif)",
    7: "fresh sub-agent given only the property text, one-line summaries of the eight earlier changes against the same property, the instruction to think of error-handling paths, resource clean-up, the order of two effects, protocol counters, check-then-act gaps, time / channel API misuse, and its own scratch worktree of /repo (nothing from /verif)",
    6: "fresh sub-agent given only the property text, one-line summaries of the six earlier changes against the same property, the instruction to prefer cooperating edits / histories of public API calls / hidden state surviving between calls or objects / element-type and backend combinations / boundaries, and its own scratch worktree of /repo (nothing from /verif)",
    5: "fresh sub-agent given only the property text, one-line summaries of the six earlier changes against the same property, the instruction to make the change depend on thread interleavings / completion orders / clock readings / a crashing worker / an I/O fault at a particular call or on a history of public API calls, and its own scratch worktree of /repo (nothing from /verif)",
    4: "fresh sub-agent given only the property text, one-line summaries of the four earlier changes against the same property (to avoid repeats), the instruction to prefer cooperating edits / multi-call API histories / boundary values, and its own scratch worktree of /repo (nothing from /verif)",
}


def main():
    rnd = int(sys.argv[1])
    needs = json.load(open(sys.argv[2]))
    root = os.path.join(os.path.dirname(os.path.abspath(__file__)), "..", "seeded")
    for name, need in needs.items():
        d = os.path.join(root, name)
        confirm = json.load(open(os.path.join(d, "confirm.json")))
        det = json.load(open(os.path.join(d, "detected.json")))
        results = det.get("results", det)
        detected = any(r.get("exit") == 1 for r in results.values() if isinstance(r, dict))
        meta = {
            "seeded_change": name,
            "breaks_property": name.split("-")[0],
            "round": rnd,
            "source": SOURCES[rnd],
            "needs_to_manifest": need,
            "files": {"patch": "patch.diff (git apply at the root of /repo)", "demonstration": "demo.rs", "agent_notes": "notes.md"},
            "confirmed_in_scratch_worktree": confirm,
            "checked_against_verif": {
                "how": "patch applied to a worktree of /repo HEAD, bin/check <P> quick of a copy of /verif built against that worktree (bin/scratch_matrix.sh)",
                "results": results,
            },
            "detected": detected,
        }
        json.dump(meta, open(os.path.join(d, "meta.json"), "w"), indent=1)
        print(name, "detected" if detected else "MISSED")


main()
