#!/bin/bash
# bin/mut.sh <PROP> <file> <sed-expr> : apply a sed mutation to /repo/<file>, run the quick check, revert. (sensitivity probe)
P=$1; F=$2; E=$3
cd /repo && cp $F /tmp/mut.bak && sed -i -E "$E" $F
if git diff --quiet; then echo "MUTATION DID NOT APPLY"; exit 3; fi
git diff | grep -E '^[-+][^-+]' | head -6
cd /verif && bin/check $P quick 2>/dev/null | grep -E "^violation|^summary|HARNESS" | cut -c1-260 | head -4
cd /repo && git checkout -- . 
