#!/bin/bash
# bin/scratch_matrix.sh [names...] : like seeded_matrix.sh but in the parallel scratch workspace (/tmp/verif${SCRATCH:-2} built
# against the worktree /tmp/repo${SCRATCH:-2}), so /repo stays untouched. Writes seeded/<n>/detected.json.
V=$(cd "$(dirname "$0")/.." && pwd); cd $V
rsync -a --exclude target --exclude replays --exclude .git --exclude evidence --exclude Cargo.lock $V/ /tmp/verif${SCRATCH:-2}/
git -C /tmp/repo${SCRATCH:-2} checkout -q -- . ; git -C /tmp/repo${SCRATCH:-2} checkout -q --detach $(git -C /repo rev-parse HEAD)
NAMES=${@:-$(ls seeded)}
for N in $NAMES; do
  P=${N%-*}
  if ! git -C /tmp/repo${SCRATCH:-2} apply $V/seeded/$N/patch.diff 2>/dev/null; then echo "$N: patch does not apply"; continue; fi
  RES="{"
  for Q in $P $(cat seeded/$N/also.txt 2>/dev/null); do
    OUT=$(cd /tmp/verif${SCRATCH:-2} && VERIF_REPO=/tmp/repo${SCRATCH:-2} VERIF_DIR=/tmp/verif${SCRATCH:-2} bin/check $Q quick 2>&1); RC=$?
    KEYS=$(echo "$OUT" | grep -E '^violation' | sed -E 's/.*key=([^ ]+) detail=.*/\1/' | sed "s#/tmp/repo${SCRATCH:-2}#/repo#g" | sort -u | head -6 | tr '\n' ' ')
    WALL=$(echo "$OUT" | grep -oE 'wall=[0-9.]+s' | tail -1)
    RES="$RES\"$Q\": {\"exit\": $RC, \"$WALL\": true, \"violation_keys\": \"$KEYS\"}, "
    echo "$N :: $Q rc=$RC $WALL $KEYS"
  done
  git -C /tmp/repo${SCRATCH:-2} checkout -q -- .
  echo "${RES%, }}" > seeded/$N/detected.json
done
