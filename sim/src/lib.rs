//! `mcmc_sim` — the seams one seeded simulator owns.
//!
//! * [`sim`]    – run a closure as a simulated execution: every thread is a coroutine on the
//!                calling OS thread, a seeded scheduler picks who runs at every scheduling point,
//!                the schedule is recorded (and can be replayed / simplified), a step bound is the
//!                hang detector, "all blocked" the deadlock detector.
//! * [`thread`], [`mpsc`], [`time`] – drop-in replacements for the `std` items the library's
//!                progress protocol uses; time is a simulated clock.
//! * [`par`]    – `par_iter_mut().map().collect()` with the rayon names: simulated workers inside
//!                a simulation, real rayon outside.
//! * [`fs`]     – `File::create` + `Write` over an in-memory disk with a fault plan.
//! * [`trace`]  – role-tagged event sink for the draws the samplers consume.
//!
//! Nothing in here reads a real clock, OS entropy or a hash-map iteration order.

pub mod fs;
pub mod mpsc;
pub mod par;
pub mod sim;
pub mod sync;
pub mod thread;
pub mod time;
pub mod trace;

pub use sim::{in_sim, sched_point};
