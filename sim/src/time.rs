//! Simulated `Instant`. `now()` is a scheduling point and charges the calling task's step cost
//! (see `sim::ClockProfile`).

pub use std::time::{Duration, SystemTime, SystemTimeError, UNIX_EPOCH};
use std::ops::{Add, AddAssign, Sub, SubAssign};

#[derive(Clone, Copy, Debug, PartialEq, Eq, PartialOrd, Ord, Hash)]
pub struct Instant(u64);

impl Instant {
    pub fn now() -> Instant {
        let t = crate::sim::clock_charge_now();
        if crate::in_sim() {
            crate::sim::event("now", 0);
            shuttle::thread::sleep(Duration::ZERO);
        }
        Instant(t)
    }
    pub fn as_nanos(&self) -> u64 {
        self.0
    }
    pub fn duration_since(&self, earlier: Instant) -> Duration {
        Duration::from_nanos(self.0.saturating_sub(earlier.0))
    }
    pub fn elapsed(&self) -> Duration {
        Duration::from_nanos(crate::sim::clock_ns().saturating_sub(self.0))
    }
}

impl Instant {
    /// std's Instant (Linux: a timespec with i64 seconds) overflows exactly when the seconds leave the
    /// i64 range; `Instant + Duration` then PANICS ("overflow when adding duration to instant"). The
    /// seam mirrors that: code that adds an absurd duration fails here as it fails on std. Sums inside
    /// std's range but beyond this clock's u64 nanoseconds saturate (a time that never arrives).
    pub fn checked_add(&self, d: Duration) -> Option<Instant> {
        if d.as_secs() > (i64::MAX as u64).saturating_sub(self.0 / 1_000_000_000 + 1) {
            return None;
        }
        Some(Instant(self.0.saturating_add(d.as_nanos().min(u64::MAX as u128) as u64)))
    }
    pub fn checked_sub(&self, d: Duration) -> Option<Instant> {
        self.0.checked_sub(d.as_nanos().min(u64::MAX as u128) as u64).map(Instant)
    }
    pub fn saturating_duration_since(&self, earlier: Instant) -> Duration {
        self.duration_since(earlier)
    }
    pub fn checked_duration_since(&self, earlier: Instant) -> Option<Duration> {
        self.0.checked_sub(earlier.0).map(Duration::from_nanos)
    }
}
impl AddAssign<Duration> for Instant {
    fn add_assign(&mut self, d: Duration) {
        *self = *self + d;
    }
}
impl Sub<Duration> for Instant {
    type Output = Instant;
    fn sub(self, d: Duration) -> Instant {
        Instant(self.0.saturating_sub(d.as_nanos().min(u64::MAX as u128) as u64))
    }
}
impl SubAssign<Duration> for Instant {
    fn sub_assign(&mut self, d: Duration) {
        *self = *self - d;
    }
}

impl Add<Duration> for Instant {
    type Output = Instant;
    fn add(self, d: Duration) -> Instant {
        self.checked_add(d).expect("overflow when adding duration to instant")
    }
}
impl Sub<Instant> for Instant {
    type Output = Duration;
    fn sub(self, o: Instant) -> Duration {
        self.duration_since(o)
    }
}
