//! `std::sync::mpsc` replacement: unbounded channel. Dual mode: inside a simulation it is
//! shuttle's channel with a working `recv_timeout` on the simulated clock and an event per
//! operation; outside one it is the std channel (real-thread fidelity cross-check).

pub use std::sync::mpsc::{RecvError, RecvTimeoutError, SendError, TryRecvError};
use std::time::Duration;

#[derive(Debug)]
enum Tx<T> {
    Sim(shuttle::sync::mpsc::Sender<T>),
    Std(std::sync::mpsc::Sender<T>),
}
#[derive(Debug)]
enum Rx<T> {
    Sim(shuttle::sync::mpsc::Receiver<T>),
    Std(std::sync::mpsc::Receiver<T>),
}

#[derive(Debug)]
pub struct Sender<T> {
    inner: Tx<T>,
    id: u64,
}
#[derive(Debug)]
pub struct Receiver<T> {
    inner: Rx<T>,
    id: u64,
}

impl<T> Clone for Sender<T> {
    fn clone(&self) -> Self {
        Sender {
            inner: match &self.inner {
                Tx::Sim(s) => Tx::Sim(s.clone()),
                Tx::Std(s) => Tx::Std(s.clone()),
            },
            id: self.id,
        }
    }
}

thread_local! {
    static NEXT_ID: std::cell::Cell<u64> = const { std::cell::Cell::new(0) };
}

/// reset the channel-id counter (called at the start of every simulated run so that ids are a
/// function of the run, not of the process history)
pub fn reset_ids() {
    NEXT_ID.with(|c| c.set(0));
}

pub fn channel<T>() -> (Sender<T>, Receiver<T>) {
    let id = NEXT_ID.with(|c| {
        let v = c.get();
        c.set(v + 1);
        v
    });
    if crate::in_sim() {
        let (tx, rx) = shuttle::sync::mpsc::channel();
        (Sender { inner: Tx::Sim(tx), id }, Receiver { inner: Rx::Sim(rx), id })
    } else {
        let (tx, rx) = std::sync::mpsc::channel();
        (Sender { inner: Tx::Std(tx), id }, Receiver { inner: Rx::Std(rx), id })
    }
}

impl<T> Sender<T> {
    pub fn send(&self, t: T) -> Result<(), SendError<T>> {
        match &self.inner {
            Tx::Std(s) => s.send(t),
            Tx::Sim(s) => {
                let r = s.send(t).map_err(|e| SendError(e.0));
                match &r {
                    Ok(()) => {
                        crate::sim::event("send", self.id);
                        crate::sim::count("sends", 1);
                        crate::sim::set_counter("sleeps_since_last_send", 0);
                    }
                    Err(_) => {
                        crate::sim::event("send_err", self.id);
                        crate::sim::count("send_errs", 1);
                    }
                }
                r
            }
        }
    }
    pub fn channel_id(&self) -> u64 {
        self.id
    }
}

impl<T> Receiver<T> {
    pub fn recv(&self) -> Result<T, RecvError> {
        match &self.inner {
            Rx::Std(r) => r.recv(),
            Rx::Sim(r) => {
                let v = r.recv().map_err(|_| RecvError);
                crate::sim::event(if v.is_ok() { "recv" } else { "recv_disc" }, self.id);
                v
            }
        }
    }
    pub fn try_recv(&self) -> Result<T, TryRecvError> {
        match &self.inner {
            Rx::Std(r) => r.try_recv(),
            Rx::Sim(r) => {
                let v = r.try_recv();
                match &v {
                    Ok(_) => crate::sim::event("recv", self.id),
                    Err(TryRecvError::Empty) => {}
                    Err(TryRecvError::Disconnected) => crate::sim::event("recv_disc", self.id),
                }
                v
            }
        }
    }
    /// Inside a simulation: `d == 0` is one non-blocking poll, otherwise poll, sleeping on the
    /// simulated clock, until the deadline. Outside: the std implementation.
    pub fn recv_timeout(&self, d: Duration) -> Result<T, RecvTimeoutError> {
        if let Rx::Std(r) = &self.inner {
            return r.recv_timeout(d);
        }
        let deadline = crate::sim::clock_ns().saturating_add(d.as_nanos().min(u64::MAX as u128) as u64);
        loop {
            match self.try_recv() {
                Ok(v) => return Ok(v),
                Err(TryRecvError::Disconnected) => return Err(RecvTimeoutError::Disconnected),
                Err(TryRecvError::Empty) => {
                    let now = crate::sim::clock_ns();
                    if now >= deadline {
                        return Err(RecvTimeoutError::Timeout);
                    }
                    let step = (deadline - now).min(1_000_000);
                    crate::thread::sleep(Duration::from_nanos(step));
                }
            }
        }
    }
    pub fn channel_id(&self) -> u64 {
        self.id
    }
}
