//! `std::sync::mpsc` replacement: unbounded channel over shuttle's, with a working
//! `recv_timeout` on the simulated clock and an event per operation.

pub use std::sync::mpsc::{RecvError, RecvTimeoutError, SendError, TryRecvError};
use std::time::Duration;

#[derive(Debug)]
pub struct Sender<T> {
    inner: shuttle::sync::mpsc::Sender<T>,
    id: u64,
}
#[derive(Debug)]
pub struct Receiver<T> {
    inner: shuttle::sync::mpsc::Receiver<T>,
    id: u64,
}

impl<T> Clone for Sender<T> {
    fn clone(&self) -> Self {
        Sender { inner: self.inner.clone(), id: self.id }
    }
}

thread_local! {
    static NEXT_ID: std::cell::Cell<u64> = const { std::cell::Cell::new(0) };
}

/// reset the channel-id counter (called at the start of every simulated run by the harness so
/// that ids are a function of the run, not of the process history)
pub fn reset_ids() {
    NEXT_ID.with(|c| c.set(0));
}

pub fn channel<T>() -> (Sender<T>, Receiver<T>) {
    if !crate::in_sim() {
        panic!("HARNESS-ERROR: mcmc_sim::mpsc::channel used outside a simulation");
    }
    let id = NEXT_ID.with(|c| {
        let v = c.get();
        c.set(v + 1);
        v
    });
    let (tx, rx) = shuttle::sync::mpsc::channel();
    (Sender { inner: tx, id }, Receiver { inner: rx, id })
}

impl<T> Sender<T> {
    pub fn send(&self, t: T) -> Result<(), SendError<T>> {
        let r = self.inner.send(t);
        match &r {
            Ok(()) => {
                crate::sim::event("send", self.id);
                crate::sim::count("sends", 1);
                crate::sim::set_counter("sleeps_since_last_send", 0);
            }
            Err(_) => {
                crate::sim::event("send_err", self.id);
                crate::sim::count("send_errs", 1);
            }
        }
        r
    }
    pub fn channel_id(&self) -> u64 {
        self.id
    }
}

impl<T> Receiver<T> {
    pub fn recv(&self) -> Result<T, RecvError> {
        let r = self.inner.recv();
        crate::sim::event(if r.is_ok() { "recv" } else { "recv_disc" }, self.id);
        r
    }
    pub fn try_recv(&self) -> Result<T, TryRecvError> {
        let r = self.inner.try_recv();
        match &r {
            Ok(_) => crate::sim::event("recv", self.id),
            Err(TryRecvError::Empty) => {}
            Err(TryRecvError::Disconnected) => crate::sim::event("recv_disc", self.id),
        }
        r
    }
    /// `d == 0`: one non-blocking poll. Otherwise poll, sleeping on the simulated clock, until
    /// the deadline.
    pub fn recv_timeout(&self, d: Duration) -> Result<T, RecvTimeoutError> {
        let deadline = crate::sim::clock_ns().saturating_add(d.as_nanos().min(u64::MAX as u128) as u64);
        loop {
            match self.try_recv() {
                Ok(v) => return Ok(v),
                Err(TryRecvError::Disconnected) => return Err(RecvTimeoutError::Disconnected),
                Err(TryRecvError::Empty) => {
                    let now = crate::sim::clock_ns();
                    if now >= deadline {
                        return Err(RecvTimeoutError::Timeout);
                    }
                    let step = (deadline - now).min(1_000_000);
                    crate::thread::sleep(Duration::from_nanos(step));
                }
            }
        }
    }
    pub fn channel_id(&self) -> u64 {
        self.id
    }
}
