//! `std::thread` replacement for the library's progress protocol. Dual mode: inside a simulation
//! every thread is a coroutine under the seeded scheduler; outside one the calls go to real OS
//! threads (used for the fidelity cross-check of the seams: the same protocol code must give the
//! same results on real threads).

use std::time::Duration;

// the rest of std::thread, unchanged (threads started through `Builder` are real OS threads)
pub use std::thread::{available_parallelism, current, panicking, park, park_timeout, AccessError, Builder, LocalKey, Result, Thread, ThreadId};

pub enum JoinHandle<T> {
    Sim(shuttle::thread::JoinHandle<T>),
    Std(std::thread::JoinHandle<T>),
}
impl<T> JoinHandle<T> {
    pub fn join(self) -> std::thread::Result<T> {
        match self {
            JoinHandle::Sim(h) => h.join(),
            JoinHandle::Std(h) => h.join(),
        }
    }
}

pub fn spawn<F, T>(f: F) -> JoinHandle<T>
where
    F: FnOnce() -> T + Send + 'static,
    T: Send + 'static,
{
    if crate::in_sim() {
        crate::sim::event("spawn", 0);
        JoinHandle::Sim(shuttle::thread::spawn(f))
    } else {
        JoinHandle::Std(std::thread::spawn(f))
    }
}

pub enum Scope<'scope, 'env: 'scope> {
    Sim(&'scope shuttle::thread::Scope<'scope, 'env>),
    Std(&'scope std::thread::Scope<'scope, 'env>),
}
pub enum ScopedJoinHandle<'scope, T> {
    Sim(shuttle::thread::ScopedJoinHandle<'scope, T>),
    Std(std::thread::ScopedJoinHandle<'scope, T>),
}
impl<'scope, T> ScopedJoinHandle<'scope, T> {
    pub fn join(self) -> std::thread::Result<T> {
        match self {
            ScopedJoinHandle::Sim(h) => h.join(),
            ScopedJoinHandle::Std(h) => h.join(),
        }
    }
}
impl<'scope, 'env> Scope<'scope, 'env> {
    pub fn spawn<F, T>(&'scope self, f: F) -> ScopedJoinHandle<'scope, T>
    where
        F: FnOnce() -> T + Send + 'scope,
        T: Send + 'scope,
    {
        match self {
            Scope::Sim(s) => ScopedJoinHandle::Sim(s.spawn(f)),
            Scope::Std(s) => ScopedJoinHandle::Std(s.spawn(f)),
        }
    }
}

pub fn scope<'env, F, T>(f: F) -> T
where
    F: for<'scope> FnOnce(&'scope Scope<'scope, 'env>) -> T,
{
    // the wrapper has to live for 'scope: a 16-byte leak per call keeps the borrow checker honest
    if crate::in_sim() {
        shuttle::thread::scope(|s| f(Box::leak(Box::new(Scope::Sim(s)))))
    } else {
        std::thread::scope(|s| f(Box::leak(Box::new(Scope::Std(s)))))
    }
}

/// Inside a simulation: advance the simulated clock by `d` and yield. Outside: advance the
/// private fake clock and give up the time slice (no real sleep: real time is never consulted).
pub fn sleep(d: Duration) {
    let ns = d.as_nanos().min(u64::MAX as u128) as u64;
    crate::sim::clock_advance(ns);
    if crate::in_sim() {
        crate::sim::event("sleep", ns);
        crate::sim::count("sleeps", 1);
        crate::sim::count("sleeps_since_last_send", 1);
        // a sleeping thread gives up the processor: yield (PCT then lets the others run; the
        // random scheduler ignores the hint). Scheduling points inside worker code use a plain
        // switch instead (see `sched_point`), so PCT keeps its priorities there.
        shuttle::thread::yield_now();
    } else {
        std::thread::yield_now();
    }
}

pub fn yield_now() {
    if crate::in_sim() {
        shuttle::thread::yield_now();
    } else {
        std::thread::yield_now();
    }
}
