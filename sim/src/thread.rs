//! `std::thread` replacement for the library's progress protocol. Dual mode: inside a simulation
//! every thread is a coroutine under the seeded scheduler; outside one the calls go to real OS
//! threads (used for the fidelity cross-check of the seams: the same protocol code must give the
//! same results on real threads).

use std::time::Duration;

// the rest of std::thread, unchanged (threads started through `Builder` are real OS threads)
pub use std::thread::{available_parallelism, current, panicking, park, park_timeout, AccessError, Builder, LocalKey, Result, Thread, ThreadId};

// Crash semantics: under std a panic ends ONE thread; `join` hands its payload to the joiner, a
// scope re-raises "a scoped thread panicked" only for threads nobody joined, and every other
// thread keeps running. shuttle instead ends the whole execution at the first panicking task, so
// simulated threads run their closure under `catch_unwind` and carry the payload to `join`: a
// worker that dies at an arbitrary point is one more fault the simulation can inject.
pub enum JoinHandle<T> {
    Sim(shuttle::thread::JoinHandle<std::thread::Result<T>>),
    Std(std::thread::JoinHandle<T>),
}
fn flatten<T>(r: std::thread::Result<std::thread::Result<T>>) -> std::thread::Result<T> {
    match r {
        Ok(Ok(v)) => Ok(v),
        Ok(Err(p)) | Err(p) => Err(p),
    }
}
impl<T> JoinHandle<T> {
    pub fn join(self) -> std::thread::Result<T> {
        match self {
            JoinHandle::Sim(h) => flatten(h.join()),
            JoinHandle::Std(h) => h.join(),
        }
    }
}

pub fn spawn<F, T>(f: F) -> JoinHandle<T>
where
    F: FnOnce() -> T + Send + 'static,
    T: Send + 'static,
{
    if crate::in_sim() {
        crate::sim::event("spawn", 0);
        JoinHandle::Sim(shuttle::thread::spawn(move || {
            let r = std::panic::catch_unwind(std::panic::AssertUnwindSafe(f));
            if r.is_err() {
                crate::sim::count("thread_panics", 1);
            }
            r
        }))
    } else {
        JoinHandle::Std(std::thread::spawn(f))
    }
}

pub enum Scope<'scope, 'env: 'scope> {
    /// the counter holds the panics of scoped threads that nobody has joined (yet)
    Sim(&'scope shuttle::thread::Scope<'scope, 'env>, std::sync::Arc<std::sync::atomic::AtomicUsize>),
    Std(&'scope std::thread::Scope<'scope, 'env>),
}
pub enum ScopedJoinHandle<'scope, T> {
    Sim(shuttle::thread::ScopedJoinHandle<'scope, std::thread::Result<T>>, std::sync::Arc<std::sync::atomic::AtomicUsize>),
    Std(std::thread::ScopedJoinHandle<'scope, T>),
}
impl<'scope, T> ScopedJoinHandle<'scope, T> {
    pub fn join(self) -> std::thread::Result<T> {
        match self {
            ScopedJoinHandle::Sim(h, unhandled) => {
                let r = flatten(h.join());
                if r.is_err() {
                    // the joiner has the payload now: no longer the scope's business
                    unhandled.fetch_sub(1, std::sync::atomic::Ordering::SeqCst);
                }
                r
            }
            ScopedJoinHandle::Std(h) => h.join(),
        }
    }
}
impl<'scope, 'env> Scope<'scope, 'env> {
    pub fn spawn<F, T>(&'scope self, f: F) -> ScopedJoinHandle<'scope, T>
    where
        F: FnOnce() -> T + Send + 'scope,
        T: Send + 'scope,
    {
        match self {
            Scope::Sim(s, unhandled) => {
                let u = unhandled.clone();
                ScopedJoinHandle::Sim(
                    s.spawn(move || {
                        let r = std::panic::catch_unwind(std::panic::AssertUnwindSafe(f));
                        if r.is_err() {
                            crate::sim::count("thread_panics", 1);
                            u.fetch_add(1, std::sync::atomic::Ordering::SeqCst);
                        }
                        r
                    }),
                    unhandled.clone(),
                )
            }
            Scope::Std(s) => ScopedJoinHandle::Std(s.spawn(f)),
        }
    }
}

pub fn scope<'env, F, T>(f: F) -> T
where
    F: for<'scope> FnOnce(&'scope Scope<'scope, 'env>) -> T,
{
    // the wrapper has to live for 'scope: a 16-byte leak per call keeps the borrow checker honest
    if crate::in_sim() {
        let unhandled = std::sync::Arc::new(std::sync::atomic::AtomicUsize::new(0));
        let u = unhandled.clone();
        // like std: the closure's own panic is re-raised only after every scoped thread has finished
        let r = shuttle::thread::scope(|s| std::panic::catch_unwind(std::panic::AssertUnwindSafe(|| f(Box::leak(Box::new(Scope::Sim(s, u)))))));
        match r {
            Err(p) => std::panic::resume_unwind(p),
            Ok(v) => {
                if unhandled.load(std::sync::atomic::Ordering::SeqCst) > 0 {
                    panic!("a scoped thread panicked");
                }
                v
            }
        }
    } else {
        std::thread::scope(|s| f(Box::leak(Box::new(Scope::Std(s)))))
    }
}

/// Inside a simulation: advance the simulated clock by `d` and yield. Outside: advance the
/// private fake clock and give up the time slice (no real sleep: real time is never consulted).
pub fn sleep(d: Duration) {
    let ns = d.as_nanos().min(u64::MAX as u128) as u64;
    crate::sim::clock_advance(ns);
    if crate::in_sim() {
        if crate::sim::process_exited() && !std::thread::panicking() {
            // the process is gone: this thread dies here (no panic hook, no message)
            crate::sim::count("threads_still_polling_at_process_exit", 1);
            std::panic::resume_unwind(Box::new(crate::sim::ProcessExit));
        }
        crate::sim::event("sleep", ns);
        crate::sim::count("sleeps", 1);
        crate::sim::count("sleeps_since_last_send", 1);
        // a sleeping thread gives up the processor: yield (PCT then lets the others run; the
        // random scheduler ignores the hint). Scheduling points inside worker code use a plain
        // switch instead (see `sched_point`), so PCT keeps its priorities there.
        shuttle::thread::yield_now();
    } else {
        std::thread::yield_now();
    }
}

pub fn yield_now() {
    if crate::in_sim() {
        shuttle::thread::yield_now();
    } else {
        std::thread::yield_now();
    }
}
