//! `std::thread` replacement for the library's progress protocol (simulation only for
//! spawn/scope; `sleep` advances the simulated clock).

pub use shuttle::thread::{JoinHandle, Scope, ScopedJoinHandle};
use std::time::Duration;

fn need_sim(what: &str) {
    if !crate::in_sim() {
        panic!("HARNESS-ERROR: mcmc_sim::thread::{what} used outside a simulation");
    }
}

pub fn spawn<F, T>(f: F) -> JoinHandle<T>
where
    F: FnOnce() -> T + Send + 'static,
    T: Send + 'static,
{
    need_sim("spawn");
    crate::sim::event("spawn", 0);
    shuttle::thread::spawn(f)
}

pub fn scope<'env, F, T>(f: F) -> T
where
    F: for<'scope> FnOnce(&'scope Scope<'scope, 'env>) -> T,
{
    need_sim("scope");
    shuttle::thread::scope(f)
}

/// Advance the simulated clock by `d` and let the scheduler pick the next task.
pub fn sleep(d: Duration) {
    let ns = d.as_nanos().min(u64::MAX as u128) as u64;
    crate::sim::clock_advance(ns);
    if crate::in_sim() {
        crate::sim::event("sleep", ns);
        crate::sim::count("sleeps", 1);
        crate::sim::count("sleeps_since_last_send", 1);
        // a sleeping thread gives up the processor: yield (PCT then lets the others run; the
        // random scheduler ignores the hint). Scheduling points inside worker code use a plain
        // switch instead (see `sched_point`), so PCT keeps its priorities there.
        shuttle::thread::yield_now();
    }
}

pub fn yield_now() {
    if crate::in_sim() {
        shuttle::thread::yield_now();
    }
}
