//! `std::fs::File` replacement for the export functions: `File::create` + `Write`.
//!
//! With a simulated disk installed on the current OS thread every create / write / flush goes to
//! an in-memory file and consults the fault plan; without one it is `std::fs::File`.

use std::cell::RefCell;
use std::collections::BTreeMap;
use std::io::{self, ErrorKind, Write};
use std::path::Path;
use std::sync::{Arc, Mutex};

#[derive(Clone, Debug, PartialEq)]
pub enum WriteFault {
    /// this call fails with an I/O error, nothing written; later calls work
    Transient,
    /// this call and every later write/flush fails (disk full)
    StickyNoSpace,
    /// this call fails hard (EIO), later calls work (bytes of this call are lost)
    HardEio,
    /// this call accepts only `n` (>=1, < len) bytes; for len == 1 the write is complete
    Short(usize),
    /// this call returns ErrorKind::Interrupted, nothing written
    Interrupted,
    /// returns Ok(0) although the buffer is non-empty
    Zero,
}

#[derive(Clone, Debug, PartialEq)]
pub enum CreateFault {
    NotFound,
    PermissionDenied,
    StorageFull,
    IsADirectory,
}

#[derive(Clone, Debug, Default, PartialEq)]
pub struct FaultPlan {
    pub create: Option<CreateFault>,
    /// write-call index (0-based, counted over the whole disk) -> fault
    pub writes: BTreeMap<u64, WriteFault>,
    /// flush-call index -> fails
    pub flush_fail: Option<u64>,
}

#[derive(Clone, Debug, Default)]
pub struct DiskStats {
    pub creates: u64,
    pub write_calls: u64,
    pub flush_calls: u64,
    pub bytes: u64,
    pub fired: BTreeMap<String, u64>,
    /// true once any byte handed to `write` was NOT stored (error after partial accept does not
    /// count: a short write reports the stored count, the caller must retry)
    pub lost_bytes: bool,
}

#[derive(Debug, Default)]
pub struct SimDisk {
    pub files: BTreeMap<String, Vec<u8>>,
    pub plan: FaultPlan,
    pub stats: DiskStats,
    sticky: bool,
}

thread_local! {
    static DISK: RefCell<Option<Arc<Mutex<SimDisk>>>> = const { RefCell::new(None) };
}

/// Install a fresh simulated disk with `plan` on this OS thread.
pub fn install(plan: FaultPlan) -> Arc<Mutex<SimDisk>> {
    let d = Arc::new(Mutex::new(SimDisk { plan, ..SimDisk::default() }));
    DISK.with(|c| *c.borrow_mut() = Some(d.clone()));
    d
}

/// Remove the simulated disk from this OS thread.
pub fn uninstall() {
    DISK.with(|c| *c.borrow_mut() = None);
}

fn fire(d: &mut SimDisk, what: &str) {
    *d.stats.fired.entry(what.to_string()).or_insert(0) += 1;
}

#[derive(Debug)]
pub enum File {
    Real(std::fs::File),
    Sim { disk: Arc<Mutex<SimDisk>>, name: String },
}

impl File {
    pub fn create<P: AsRef<Path>>(path: P) -> io::Result<File> {
        let disk = DISK.with(|c| c.borrow().clone());
        match disk {
            None => std::fs::File::create(path).map(File::Real),
            Some(disk) => {
                let name = path.as_ref().to_string_lossy().to_string();
                {
                    let mut d = disk.lock().unwrap();
                    d.stats.creates += 1;
                    if let Some(cf) = d.plan.create.clone() {
                        let (kind, tag) = match cf {
                            CreateFault::NotFound => (ErrorKind::NotFound, "create_not_found"),
                            CreateFault::PermissionDenied => (ErrorKind::PermissionDenied, "create_permission_denied"),
                            CreateFault::StorageFull => (ErrorKind::StorageFull, "create_storage_full"),
                            CreateFault::IsADirectory => (ErrorKind::IsADirectory, "create_is_a_directory"),
                        };
                        fire(&mut d, tag);
                        return Err(io::Error::new(kind, "simulated create fault"));
                    }
                    d.files.insert(name.clone(), Vec::new());
                }
                Ok(File::Sim { disk, name })
            }
        }
    }
}

impl Write for File {
    fn write(&mut self, buf: &[u8]) -> io::Result<usize> {
        match self {
            File::Real(f) => f.write(buf),
            File::Sim { disk, name } => {
                let mut d = disk.lock().unwrap();
                let k = d.stats.write_calls;
                d.stats.write_calls += 1;
                if buf.is_empty() {
                    return Ok(0);
                }
                if d.sticky {
                    fire(&mut d, "sticky_nospace_repeat");
                    d.stats.lost_bytes = true;
                    return Err(io::Error::new(ErrorKind::StorageFull, "simulated: no space left on device"));
                }
                let fault = d.plan.writes.get(&k).cloned();
                match fault {
                    Some(WriteFault::Transient) => {
                        fire(&mut d, "write_transient");
                        d.stats.lost_bytes = true;
                        Err(io::Error::new(ErrorKind::Other, "simulated transient write error"))
                    }
                    Some(WriteFault::HardEio) => {
                        fire(&mut d, "write_eio");
                        d.stats.lost_bytes = true;
                        Err(io::Error::new(ErrorKind::Other, "simulated EIO"))
                    }
                    Some(WriteFault::StickyNoSpace) => {
                        fire(&mut d, "write_sticky_nospace");
                        d.sticky = true;
                        d.stats.lost_bytes = true;
                        Err(io::Error::new(ErrorKind::StorageFull, "simulated: no space left on device"))
                    }
                    Some(WriteFault::Interrupted) => {
                        fire(&mut d, "write_interrupted");
                        Err(io::Error::new(ErrorKind::Interrupted, "simulated EINTR"))
                    }
                    Some(WriteFault::Zero) => {
                        fire(&mut d, "write_zero");
                        d.stats.lost_bytes = true;
                        Ok(0)
                    }
                    Some(WriteFault::Short(n)) if buf.len() > 1 => {
                        let n = n.clamp(1, buf.len() - 1);
                        fire(&mut d, "write_short");
                        d.stats.bytes += n as u64;
                        d.files.get_mut(name.as_str()).unwrap().extend_from_slice(&buf[..n]);
                        Ok(n)
                    }
                    _ => {
                        d.stats.bytes += buf.len() as u64;
                        d.files.get_mut(name.as_str()).unwrap().extend_from_slice(buf);
                        Ok(buf.len())
                    }
                }
            }
        }
    }

    fn flush(&mut self) -> io::Result<()> {
        match self {
            File::Real(f) => f.flush(),
            File::Sim { disk, .. } => {
                let mut d = disk.lock().unwrap();
                let k = d.stats.flush_calls;
                d.stats.flush_calls += 1;
                if d.sticky {
                    return Err(io::Error::new(ErrorKind::StorageFull, "simulated: no space left on device"));
                }
                if d.plan.flush_fail == Some(k) {
                    fire(&mut d, "flush_error");
                    return Err(io::Error::new(ErrorKind::Other, "simulated flush error"));
                }
                Ok(())
            }
        }
    }
}
