//! Simulated execution: seeded scheduler, recorded schedule, simulated clock, event log.

use shuttle::scheduler::{PctScheduler, Schedule, Scheduler, Task, TaskId};
use shuttle::{Config, FailurePersistence, MaxSteps, Runner};
use std::cell::{Cell, RefCell};
use std::collections::BTreeMap;
use std::panic::{catch_unwind, AssertUnwindSafe};
use std::sync::{Arc, Mutex};

/// SplitMix64: the only PRNG the simulator itself uses.
#[derive(Clone, Debug)]
pub struct SplitMix(pub u64);
impl SplitMix {
    pub fn next(&mut self) -> u64 {
        self.0 = self.0.wrapping_add(0x9E37_79B9_7F4A_7C15);
        let mut z = self.0;
        z = (z ^ (z >> 30)).wrapping_mul(0xBF58_476D_1CE4_E5B9);
        z = (z ^ (z >> 27)).wrapping_mul(0x94D0_49BB_1331_11EB);
        z ^ (z >> 31)
    }
}
pub fn mix(a: u64, b: u64) -> u64 {
    let mut s = SplitMix(a ^ b.wrapping_mul(0xD6E8_FEB8_6659_FD93));
    s.next()
}

/// Which scheduler decides the interleaving.
#[derive(Clone, Debug, PartialEq)]
pub enum Sched {
    /// uniformly random runnable task at every scheduling point
    Random { seed: u64 },
    /// shuttle's PCT scheduler (priority based, `depth` priority change points)
    Pct { seed: u64, depth: usize },
    /// run the current task for as long as it is runnable, lowest id otherwise (the "sequential" schedule)
    Sticky,
    /// follow a recorded list of task ids; where the recorded task is not runnable (or the list
    /// is exhausted) continue with the current task if runnable, else the lowest runnable id.
    /// `seed` re-creates the random-data stream of the recorded run.
    Replay { seed: u64, tasks: Vec<u32> },
}

impl Sched {
    pub fn seed(&self) -> u64 {
        match self {
            Sched::Random { seed } | Sched::Pct { seed, .. } | Sched::Replay { seed, .. } => *seed,
            Sched::Sticky => 0,
        }
    }
}

/// Cost model of the simulated clock. Every `Instant::now()` made by task `t` (its k-th call)
/// advances the one global simulated clock by `cost(t, k)`; `thread::sleep(d)` advances it by `d`.
/// A pure function of (seed, task, call index): independent of the schedule.
#[derive(Clone, Debug, PartialEq)]
pub struct ClockProfile {
    pub seed: u64,
    /// cost in ns of one `now()` by task id i (index modulo len); empty => `default_ns`
    pub base_ns: Vec<u64>,
    pub default_ns: u64,
    /// multiply each cost by a factor in [1/2, 3/2) drawn from (seed, task, call)
    pub jitter: bool,
    /// (task, call index, extra ns): one stall / clock jump charged at that call
    pub stall: Option<(u32, u64, u64)>,
}
impl Default for ClockProfile {
    fn default() -> Self {
        ClockProfile { seed: 0, base_ns: vec![], default_ns: 1_000, jitter: false, stall: None }
    }
}
impl ClockProfile {
    pub fn cost(&self, task: u32, call: u64) -> u64 {
        let base = if self.base_ns.is_empty() {
            self.default_ns
        } else {
            self.base_ns[task as usize % self.base_ns.len()]
        };
        let mut c = base;
        if self.jitter && base > 1 {
            let r = mix(mix(self.seed, task as u64), call) % 1024;
            c = (base / 2).saturating_add(((base as u128 * r as u128) / 1024) as u64);
        }
        if let Some((t, k, extra)) = self.stall {
            if t == task && k == call {
                c = c.saturating_add(extra);
            }
        }
        c
    }
}

#[derive(Clone, Debug)]
pub struct SimConfig {
    pub sched: Sched,
    pub max_steps: usize,
    pub stack_size: usize,
    /// number of simulated pool workers `par` starts
    pub workers: usize,
    pub clock: ClockProfile,
    /// keep the first `keep_events` events verbatim (all are hashed and counted)
    pub keep_events: usize,
}
impl Default for SimConfig {
    fn default() -> Self {
        SimConfig {
            sched: Sched::Random { seed: 1 },
            max_steps: 2_000_000,
            stack_size: 8 << 20,
            workers: 4,
            clock: ClockProfile::default(),
            keep_events: 64,
        }
    }
}

#[derive(Clone, Debug, PartialEq)]
pub struct Event {
    pub task: u32,
    pub kind: &'static str,
    pub a: u64,
    pub t_ns: u64,
}

#[derive(Clone, Debug, PartialEq)]
pub enum FailKind {
    Panic,
    StepBound,
    Deadlock,
}

#[derive(Clone, Debug)]
pub struct SimFailure {
    pub kind: FailKind,
    pub msg: String,
}

#[derive(Clone, Debug, Default)]
pub struct SimReport {
    pub failure: Option<SimFailure>,
    /// task id chosen at every scheduling decision
    pub schedule: Vec<u32>,
    pub context_switches: u64,
    pub sched_hash: u64,
    pub sim_time_ns: u64,
    pub n_events: u64,
    pub event_hash: u64,
    pub events: Vec<Event>,
    pub counters: BTreeMap<String, u64>,
    pub n_tasks: u32,
    pub replay_divergences: u64,
}
impl Default for FailKind {
    fn default() -> Self {
        FailKind::Panic
    }
}

#[derive(Default)]
struct State {
    clock_ns: u64,
    profile: ClockProfile,
    now_calls: Vec<u64>,
    n_events: u64,
    event_hash: u64,
    events: Vec<Event>,
    keep: usize,
    workers: usize,
    counters: BTreeMap<String, u64>,
    max_task: u32,
}

thread_local! {
    static IN_SIM: Cell<bool> = const { Cell::new(false) };
    static STATE: RefCell<State> = RefCell::new(State::default());
    static OUTSIDE_CLOCK: Cell<u64> = const { Cell::new(0) };
}

/// True while the current OS thread is executing a simulated run (all simulated threads are
/// coroutines on that OS thread).
pub fn in_sim() -> bool {
    IN_SIM.with(|c| c.get())
}

pub(crate) fn me() -> u32 {
    let id: usize = shuttle::current::me().into();
    id as u32
}

/// Append an event to the run's log (hash + count always, verbatim for the first `keep_events`).
pub fn event(kind: &'static str, a: u64) {
    if !in_sim() {
        return;
    }
    let task = me();
    STATE.with(|s| {
        let mut s = s.borrow_mut();
        let t = s.clock_ns;
        let mut h = s.event_hash;
        for b in kind.as_bytes() {
            h = (h ^ *b as u64).wrapping_mul(0x100_0000_01b3);
        }
        h = mix(h, task as u64);
        h = mix(h, a);
        s.event_hash = h;
        s.n_events += 1;
        if task > s.max_task {
            s.max_task = task;
        }
        if s.events.len() < s.keep {
            s.events.push(Event { task, kind, a, t_ns: t });
        }
    });
}

/// Increment a named reach counter of the current run (no-op outside a simulation).
pub fn count(name: &str, by: u64) {
    if !in_sim() {
        return;
    }
    STATE.with(|s| {
        *s.borrow_mut().counters.entry(name.to_string()).or_insert(0) += by;
    });
}

/// Payload with which a simulated thread is unwound once the simulated process has exited.
pub struct ProcessExit;

/// The simulated process ends here (its main thread has returned or is unwinding out of `main`):
/// under std every other thread dies with it. Simulated threads that are still alive are unwound
/// quietly at their next `thread::sleep` (the seams' spawn wrapper absorbs the payload), so a
/// detached poller left behind is not mistaken for a hang of the call under test.
pub fn process_exit() {
    if in_sim() {
        set_counter("process_exited", 1);
    }
}
pub(crate) fn process_exited() -> bool {
    in_sim() && STATE.with(|s| s.borrow().counters.get("process_exited").copied().unwrap_or(0) == 1)
}

/// Set a named counter of the current run to `v` (no-op outside a simulation).
pub fn set_counter(name: &str, v: u64) {
    if !in_sim() {
        return;
    }
    STATE.with(|s| {
        s.borrow_mut().counters.insert(name.to_string(), v);
    });
}

/// A scheduling point: inside a simulation the scheduler decides who runs next; a no-op outside.
pub fn sched_point(label: &'static str) {
    if in_sim() {
        event(label, 0);
        shuttle::thread::sleep(std::time::Duration::ZERO);
    }
}

pub(crate) fn workers() -> usize {
    STATE.with(|s| s.borrow().workers.max(1))
}

/// Simulated clock: current time in ns.
pub fn clock_ns() -> u64 {
    if in_sim() {
        STATE.with(|s| s.borrow().clock_ns)
    } else {
        OUTSIDE_CLOCK.with(|c| c.get())
    }
}

pub(crate) fn clock_advance(ns: u64) -> u64 {
    if in_sim() {
        STATE.with(|s| {
            let mut s = s.borrow_mut();
            s.clock_ns = s.clock_ns.saturating_add(ns);
            s.clock_ns
        })
    } else {
        OUTSIDE_CLOCK.with(|c| {
            c.set(c.get().saturating_add(ns));
            c.get()
        })
    }
}

/// charge the calling task for one `Instant::now()` and return the new time
pub(crate) fn clock_charge_now() -> u64 {
    if in_sim() {
        let task = me();
        STATE.with(|s| {
            let mut s = s.borrow_mut();
            if s.now_calls.len() <= task as usize {
                s.now_calls.resize(task as usize + 1, 0);
            }
            let k = s.now_calls[task as usize];
            s.now_calls[task as usize] = k + 1;
            let c = s.profile.cost(task, k);
            s.clock_ns = s.clock_ns.saturating_add(c);
            s.clock_ns
        })
    } else {
        // outside a simulation: a private monotone counter, 1 µs per reading
        clock_advance(1_000)
    }
}

/// Random data owned by the scheduler (recorded / replayable).
pub fn sim_random_u64() -> u64 {
    use shuttle::rand::RngCore;
    shuttle::rand::thread_rng().next_u64()
}

struct RecSched {
    mode: Sched,
    rng: SplitMix,
    data: SplitMix,
    pct: Option<PctScheduler>,
    pos: usize,
    started: bool,
    rec: Arc<Mutex<(Vec<u32>, u64, u64)>>, // schedule, context switches, replay divergences
}

impl Scheduler for RecSched {
    fn new_execution(&mut self) -> Option<Schedule> {
        if self.started {
            return None;
        }
        self.started = true;
        if let Some(p) = self.pct.as_mut() {
            p.new_execution();
        }
        Some(Schedule::new(self.mode.seed()))
    }

    fn next_task(&mut self, runnable: &[&Task], current: Option<TaskId>, is_yielding: bool) -> Option<TaskId> {
        // a task that asked to yield (sleep) does not "stay": fairness of Sticky / Replay fallback
        let cur_runnable = current.filter(|c| !is_yielding && runnable.iter().any(|t| t.id() == *c));
        // next runnable id after the current one, cyclically (round robin); lowest if no current
        let lowest = || {
            let cur = current.map(usize::from).unwrap_or(usize::MAX);
            let mut ids: Vec<usize> = runnable.iter().map(|t| usize::from(t.id())).collect();
            ids.sort_unstable();
            let pick = ids.iter().copied().find(|i| cur != usize::MAX && *i > cur).unwrap_or(ids[0]);
            TaskId::from(pick)
        };
        let mut diverged = false;
        let pick: TaskId = match &self.mode {
            Sched::Random { .. } => {
                let i = (self.rng.next() % runnable.len() as u64) as usize;
                runnable[i].id()
            }
            Sched::Pct { .. } => self
                .pct
                .as_mut()
                .unwrap()
                .next_task(runnable, current, is_yielding)
                .unwrap_or_else(lowest),
            Sched::Sticky => cur_runnable.unwrap_or_else(lowest),
            Sched::Replay { tasks, .. } => {
                let want = tasks.get(self.pos).copied();
                self.pos += 1;
                match want.and_then(|w| runnable.iter().find(|t| usize::from(t.id()) == w as usize)) {
                    Some(t) => t.id(),
                    None => {
                        diverged = true;
                        cur_runnable.unwrap_or_else(lowest)
                    }
                }
            }
        };
        let mut rec = self.rec.lock().unwrap();
        rec.0.push(usize::from(pick) as u32);
        if current.is_some() && current != Some(pick) {
            rec.1 += 1;
        }
        if diverged {
            rec.2 += 1;
        }
        Some(pick)
    }

    fn next_u64(&mut self) -> u64 {
        self.data.next()
    }
}

fn classify(msg: &str) -> FailKind {
    if msg.contains("exceeded max_steps bound") {
        FailKind::StepBound
    } else if msg.starts_with("deadlock!") {
        FailKind::Deadlock
    } else {
        FailKind::Panic
    }
}

thread_local! {
    /// last panic message + location seen by the hook installed with [`install_quiet_panic_hook`]
    pub static LAST_PANIC: RefCell<Option<String>> = const { RefCell::new(None) };
}

/// Install a panic hook that records "message @ file:line" in [`LAST_PANIC`] and prints nothing
/// (unless VERIF_VERBOSE is set). Call once, before any simulation.
pub fn install_quiet_panic_hook() {
    let verbose = std::env::var("VERIF_VERBOSE").is_ok();
    std::panic::set_hook(Box::new(move |info| {
        let msg = if let Some(s) = info.payload().downcast_ref::<&str>() {
            s.to_string()
        } else if let Some(s) = info.payload().downcast_ref::<String>() {
            s.clone()
        } else {
            "<non-string panic payload>".to_string()
        };
        // the library is compiled from a copy under target/simsrc/src: report the path in /repo
        let loc = info
            .location()
            .map(|l| {
                let f = l.file();
                let f = match f.find("simsrc/src/") {
                    Some(i) => format!("/repo/src/{}", &f[i + "simsrc/src/".len()..]),
                    None => f.to_string(),
                };
                format!("{}:{}", f, l.line())
            })
            .unwrap_or_default();
        if verbose {
            eprintln!("[panic] {msg} @ {loc}");
        }
        LAST_PANIC.with(|p| {
            let mut p = p.borrow_mut();
            // keep the FIRST panic of a run (later ones are consequences: poisoned joins etc.)
            if p.is_none() {
                *p = Some(format!("{msg} @ {loc}"));
            }
        });
    }));
}

pub fn take_last_panic() -> Option<String> {
    LAST_PANIC.with(|p| p.borrow_mut().take())
}

struct InSimGuard;
impl Drop for InSimGuard {
    fn drop(&mut self) {
        IN_SIM.with(|c| c.set(false));
    }
}

/// Run `f` once as a simulated execution and return its value together with the run's report.
pub fn run_sim<T, F>(cfg: &SimConfig, f: F) -> (SimReport, Option<T>)
where
    T: Send + 'static,
    F: Fn() -> T + Send + Sync + 'static,
{
    assert!(!in_sim(), "nested simulations are not supported");
    let rec = Arc::new(Mutex::new((Vec::new(), 0u64, 0u64)));
    let seed = cfg.sched.seed();
    let pct = match &cfg.sched {
        Sched::Pct { seed, depth } => Some(PctScheduler::new_from_seed(*seed, (*depth).max(1), 1)),
        _ => None,
    };
    let sched = RecSched {
        mode: cfg.sched.clone(),
        rng: SplitMix(mix(seed, 0x5c4ed)),
        data: SplitMix(mix(seed, 0xda7a)),
        pct,
        pos: 0,
        started: false,
        rec: rec.clone(),
    };
    let mut config = Config::new();
    config.stack_size = cfg.stack_size;
    config.failure_persistence = FailurePersistence::None;
    config.max_steps = MaxSteps::FailAfter(cfg.max_steps);
    config.silence_warnings = true;

    STATE.with(|s| {
        *s.borrow_mut() = State {
            profile: cfg.clock.clone(),
            keep: cfg.keep_events,
            workers: cfg.workers,
            ..State::default()
        }
    });
    let _ = take_last_panic();
    crate::mpsc::reset_ids();
    let out: Arc<Mutex<Option<T>>> = Arc::new(Mutex::new(None));
    let out2 = out.clone();
    IN_SIM.with(|c| c.set(true));
    let guard = InSimGuard;
    let res = catch_unwind(AssertUnwindSafe(|| {
        let runner = Runner::new(sched, config);
        runner.run(move || {
            let v = f();
            *out2.lock().unwrap() = Some(v);
        });
    }));
    drop(guard);

    let mut report = SimReport::default();
    if let Err(p) = res {
        let payload = if let Some(s) = p.downcast_ref::<&str>() {
            s.to_string()
        } else if let Some(s) = p.downcast_ref::<String>() {
            s.clone()
        } else {
            "<non-string panic payload>".to_string()
        };
        let first = take_last_panic();
        let kind = classify(&payload);
        let msg = match (&kind, first) {
            (FailKind::Panic, Some(f)) => f,
            (_, _) => payload,
        };
        report.failure = Some(SimFailure { kind, msg });
    }
    {
        let r = rec.lock().unwrap();
        report.schedule = r.0.clone();
        report.context_switches = r.1;
        report.replay_divergences = r.2;
    }
    let mut h = 0xcbf2_9ce4_8422_2325u64;
    for t in &report.schedule {
        h = (h ^ *t as u64).wrapping_mul(0x100_0000_01b3);
    }
    report.sched_hash = h;
    STATE.with(|s| {
        let mut s = s.borrow_mut();
        report.sim_time_ns = s.clock_ns;
        report.n_events = s.n_events;
        report.event_hash = s.event_hash;
        report.events = std::mem::take(&mut s.events);
        report.counters = std::mem::take(&mut s.counters);
        report.counters.insert("schedule_len".into(), report.schedule.len() as u64);
        report.n_tasks = s.max_task + 1;
    });
    let v = out.lock().unwrap().take();
    (report, v)
}

/// Greedy schedule simplification: try to remove context switches from `tasks` (let the previous
/// task run on) while `still_fails` keeps returning true for the candidate. Bounded by `budget`
/// candidate executions. Returns the simplified task list.
pub fn simplify_schedule(tasks: &[u32], budget: usize, mut still_fails: impl FnMut(&[u32]) -> bool) -> Vec<u32> {
    let mut cur: Vec<u32> = tasks.to_vec();
    let mut used = 0usize;
    // 1) truncate the tail (replay falls back to "stay on the current task")
    let mut len = cur.len();
    while len > 0 && used < budget {
        let cand = &cur[..len / 2];
        used += 1;
        if still_fails(cand) {
            cur.truncate(len / 2);
            len = cur.len();
        } else {
            break;
        }
    }
    // 2) overwrite blocks with "same as previous"
    let mut block = (cur.len() / 2).max(1);
    while block >= 1 && used < budget {
        let mut i = 1;
        while i < cur.len() && used < budget {
            let end = (i + block).min(cur.len());
            if cur[i..end].iter().any(|t| *t != cur[i - 1]) {
                let mut cand = cur.clone();
                for k in i..end {
                    cand[k] = cand[i - 1];
                }
                used += 1;
                if still_fails(&cand) {
                    cur = cand;
                }
            }
            i = end;
        }
        if block == 1 {
            break;
        }
        block /= 2;
    }
    cur
}
