//! Role-tagged trace of the draws / intermediate values a sampler actually used.
//! Thread-local sink; disabled = one branch on a thread-local bool.

use std::cell::{Cell, RefCell};

#[derive(Clone, Debug, PartialEq)]
pub struct TraceEvent {
    pub role: &'static str,
    pub vals: Vec<f64>,
}

thread_local! {
    static ON: Cell<bool> = const { Cell::new(false) };
    static SINK: RefCell<Vec<TraceEvent>> = const { RefCell::new(Vec::new()) };
}

#[inline]
pub fn enabled() -> bool {
    ON.with(|c| c.get())
}

/// start collecting on this OS thread (clears the sink)
pub fn start() {
    SINK.with(|s| s.borrow_mut().clear());
    ON.with(|c| c.set(true));
}

/// stop collecting and return everything collected since `start`
pub fn stop() -> Vec<TraceEvent> {
    ON.with(|c| c.set(false));
    SINK.with(|s| std::mem::take(&mut *s.borrow_mut()))
}

/// take what has been collected so far, keep collecting
pub fn drain() -> Vec<TraceEvent> {
    SINK.with(|s| std::mem::take(&mut *s.borrow_mut()))
}

#[inline]
pub fn emit(role: &'static str, vals: &[f64]) {
    if enabled() {
        SINK.with(|s| s.borrow_mut().push(TraceEvent { role, vals: vals.to_vec() }));
    }
}

#[inline]
pub fn emit_with(role: &'static str, f: impl FnOnce() -> Vec<f64>) {
    if enabled() {
        let vals = f();
        SINK.with(|s| s.borrow_mut().push(TraceEvent { role, vals }));
    }
}
