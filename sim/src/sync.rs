//! `std::sync` look-alike for code that the build-time source rewrite (bin/check) redirects here:
//! `Mutex`, `RwLock` and the integer / bool atomics get a scheduling point before every
//! operation (and after a guard is released) while a simulation is running, and behave exactly
//! like the std types otherwise. Everything else of `std::sync` is re-exported unchanged.
//!
//! All simulated threads are coroutines on one OS thread, so a lock that is held belongs to
//! another simulated thread that is merely descheduled: acquiring spins on `try_lock` with a
//! yield in between (never blocks the OS thread).

pub use std::sync::{Arc, Barrier, Condvar, LockResult, Once, OnceLock, PoisonError, TryLockError, TryLockResult, Weak};

pub mod mpsc {
    pub use crate::mpsc::*;
}

use std::ops::{Deref, DerefMut};

fn point(label: &'static str) {
    if crate::in_sim() {
        crate::sim::event(label, 0);
        crate::sim::count("sync_points", 1);
        shuttle::thread::sleep(std::time::Duration::ZERO);
    }
}
fn spin_yield() {
    crate::sim::count("sync_lock_waits", 1);
    shuttle::thread::yield_now();
}

#[derive(Debug, Default)]
pub struct Mutex<T: ?Sized> {
    inner: std::sync::Mutex<T>,
}
pub struct MutexGuard<'a, T: ?Sized> {
    g: Option<std::sync::MutexGuard<'a, T>>,
}
impl<T> Mutex<T> {
    pub const fn new(t: T) -> Self {
        Mutex { inner: std::sync::Mutex::new(t) }
    }
    pub fn into_inner(self) -> LockResult<T> {
        self.inner.into_inner()
    }
}
impl<T: ?Sized> Mutex<T> {
    pub fn lock(&self) -> LockResult<MutexGuard<'_, T>> {
        if !crate::in_sim() {
            return match self.inner.lock() {
                Ok(g) => Ok(MutexGuard { g: Some(g) }),
                Err(p) => Err(PoisonError::new(MutexGuard { g: Some(p.into_inner()) })),
            };
        }
        point("mutex_lock");
        loop {
            match self.inner.try_lock() {
                Ok(g) => return Ok(MutexGuard { g: Some(g) }),
                Err(TryLockError::Poisoned(p)) => return Err(PoisonError::new(MutexGuard { g: Some(p.into_inner()) })),
                Err(TryLockError::WouldBlock) => spin_yield(),
            }
        }
    }
    pub fn try_lock(&self) -> TryLockResult<MutexGuard<'_, T>> {
        point("mutex_try_lock");
        match self.inner.try_lock() {
            Ok(g) => Ok(MutexGuard { g: Some(g) }),
            Err(TryLockError::Poisoned(p)) => Err(TryLockError::Poisoned(PoisonError::new(MutexGuard { g: Some(p.into_inner()) }))),
            Err(TryLockError::WouldBlock) => Err(TryLockError::WouldBlock),
        }
    }
    pub fn get_mut(&mut self) -> LockResult<&mut T> {
        self.inner.get_mut()
    }
    pub fn is_poisoned(&self) -> bool {
        self.inner.is_poisoned()
    }
}
impl<T: ?Sized> Deref for MutexGuard<'_, T> {
    type Target = T;
    fn deref(&self) -> &T {
        self.g.as_ref().unwrap()
    }
}
impl<T: ?Sized> DerefMut for MutexGuard<'_, T> {
    fn deref_mut(&mut self) -> &mut T {
        self.g.as_mut().unwrap()
    }
}
impl<T: ?Sized> Drop for MutexGuard<'_, T> {
    fn drop(&mut self) {
        self.g.take();
        if !std::thread::panicking() {
            point("mutex_unlock");
        }
    }
}
impl<T: ?Sized + std::fmt::Debug> std::fmt::Debug for MutexGuard<'_, T> {
    fn fmt(&self, f: &mut std::fmt::Formatter<'_>) -> std::fmt::Result {
        self.g.as_ref().unwrap().fmt(f)
    }
}

#[derive(Debug, Default)]
pub struct RwLock<T: ?Sized> {
    inner: std::sync::RwLock<T>,
}
pub struct RwLockReadGuard<'a, T: ?Sized> {
    g: Option<std::sync::RwLockReadGuard<'a, T>>,
}
pub struct RwLockWriteGuard<'a, T: ?Sized> {
    g: Option<std::sync::RwLockWriteGuard<'a, T>>,
}
impl<T> RwLock<T> {
    pub const fn new(t: T) -> Self {
        RwLock { inner: std::sync::RwLock::new(t) }
    }
    pub fn into_inner(self) -> LockResult<T> {
        self.inner.into_inner()
    }
}
impl<T: ?Sized> RwLock<T> {
    pub fn read(&self) -> LockResult<RwLockReadGuard<'_, T>> {
        if !crate::in_sim() {
            return match self.inner.read() {
                Ok(g) => Ok(RwLockReadGuard { g: Some(g) }),
                Err(p) => Err(PoisonError::new(RwLockReadGuard { g: Some(p.into_inner()) })),
            };
        }
        point("rwlock_read");
        loop {
            match self.inner.try_read() {
                Ok(g) => return Ok(RwLockReadGuard { g: Some(g) }),
                Err(TryLockError::Poisoned(p)) => return Err(PoisonError::new(RwLockReadGuard { g: Some(p.into_inner()) })),
                Err(TryLockError::WouldBlock) => spin_yield(),
            }
        }
    }
    pub fn write(&self) -> LockResult<RwLockWriteGuard<'_, T>> {
        if !crate::in_sim() {
            return match self.inner.write() {
                Ok(g) => Ok(RwLockWriteGuard { g: Some(g) }),
                Err(p) => Err(PoisonError::new(RwLockWriteGuard { g: Some(p.into_inner()) })),
            };
        }
        point("rwlock_write");
        loop {
            match self.inner.try_write() {
                Ok(g) => return Ok(RwLockWriteGuard { g: Some(g) }),
                Err(TryLockError::Poisoned(p)) => return Err(PoisonError::new(RwLockWriteGuard { g: Some(p.into_inner()) })),
                Err(TryLockError::WouldBlock) => spin_yield(),
            }
        }
    }
    pub fn get_mut(&mut self) -> LockResult<&mut T> {
        self.inner.get_mut()
    }
}
impl<T: ?Sized> Deref for RwLockReadGuard<'_, T> {
    type Target = T;
    fn deref(&self) -> &T {
        self.g.as_ref().unwrap()
    }
}
impl<T: ?Sized> Drop for RwLockReadGuard<'_, T> {
    fn drop(&mut self) {
        self.g.take();
        if !std::thread::panicking() {
            point("rwlock_unlock");
        }
    }
}
impl<T: ?Sized> Deref for RwLockWriteGuard<'_, T> {
    type Target = T;
    fn deref(&self) -> &T {
        self.g.as_ref().unwrap()
    }
}
impl<T: ?Sized> DerefMut for RwLockWriteGuard<'_, T> {
    fn deref_mut(&mut self) -> &mut T {
        self.g.as_mut().unwrap()
    }
}
impl<T: ?Sized> Drop for RwLockWriteGuard<'_, T> {
    fn drop(&mut self) {
        self.g.take();
        if !std::thread::panicking() {
            point("rwlock_unlock");
        }
    }
}

pub mod atomic {
    pub use std::sync::atomic::{compiler_fence, fence, Ordering};
    use super::point;

    macro_rules! atomic_int {
        ($name:ident, $std:ty, $t:ty) => {
            #[derive(Debug, Default)]
            pub struct $name {
                inner: $std,
            }
            impl $name {
                pub const fn new(v: $t) -> Self {
                    $name { inner: <$std>::new(v) }
                }
                pub fn load(&self, o: Ordering) -> $t {
                    point("atomic_load");
                    self.inner.load(o)
                }
                pub fn store(&self, v: $t, o: Ordering) {
                    point("atomic_store");
                    self.inner.store(v, o)
                }
                pub fn swap(&self, v: $t, o: Ordering) -> $t {
                    point("atomic_rmw");
                    self.inner.swap(v, o)
                }
                pub fn fetch_add(&self, v: $t, o: Ordering) -> $t {
                    point("atomic_rmw");
                    self.inner.fetch_add(v, o)
                }
                pub fn fetch_sub(&self, v: $t, o: Ordering) -> $t {
                    point("atomic_rmw");
                    self.inner.fetch_sub(v, o)
                }
                pub fn fetch_max(&self, v: $t, o: Ordering) -> $t {
                    point("atomic_rmw");
                    self.inner.fetch_max(v, o)
                }
                pub fn fetch_min(&self, v: $t, o: Ordering) -> $t {
                    point("atomic_rmw");
                    self.inner.fetch_min(v, o)
                }
                pub fn fetch_or(&self, v: $t, o: Ordering) -> $t {
                    point("atomic_rmw");
                    self.inner.fetch_or(v, o)
                }
                pub fn fetch_and(&self, v: $t, o: Ordering) -> $t {
                    point("atomic_rmw");
                    self.inner.fetch_and(v, o)
                }
                pub fn compare_exchange(&self, c: $t, n: $t, s: Ordering, f: Ordering) -> Result<$t, $t> {
                    point("atomic_rmw");
                    self.inner.compare_exchange(c, n, s, f)
                }
                pub fn compare_exchange_weak(&self, c: $t, n: $t, s: Ordering, f: Ordering) -> Result<$t, $t> {
                    point("atomic_rmw");
                    self.inner.compare_exchange(c, n, s, f)
                }
                pub fn fetch_update<F: FnMut($t) -> Option<$t>>(&self, s: Ordering, f: Ordering, func: F) -> Result<$t, $t> {
                    point("atomic_rmw");
                    self.inner.fetch_update(s, f, func)
                }
                pub fn into_inner(self) -> $t {
                    self.inner.into_inner()
                }
                pub fn get_mut(&mut self) -> &mut $t {
                    self.inner.get_mut()
                }
            }
            impl From<$t> for $name {
                fn from(v: $t) -> Self {
                    Self::new(v)
                }
            }
        };
    }
    atomic_int!(AtomicUsize, std::sync::atomic::AtomicUsize, usize);
    atomic_int!(AtomicIsize, std::sync::atomic::AtomicIsize, isize);
    atomic_int!(AtomicU64, std::sync::atomic::AtomicU64, u64);
    atomic_int!(AtomicI64, std::sync::atomic::AtomicI64, i64);
    atomic_int!(AtomicU32, std::sync::atomic::AtomicU32, u32);
    atomic_int!(AtomicI32, std::sync::atomic::AtomicI32, i32);
    atomic_int!(AtomicU8, std::sync::atomic::AtomicU8, u8);

    #[derive(Debug, Default)]
    pub struct AtomicBool {
        inner: std::sync::atomic::AtomicBool,
    }
    impl AtomicBool {
        pub const fn new(v: bool) -> Self {
            AtomicBool { inner: std::sync::atomic::AtomicBool::new(v) }
        }
        pub fn load(&self, o: Ordering) -> bool {
            point("atomic_load");
            self.inner.load(o)
        }
        pub fn store(&self, v: bool, o: Ordering) {
            point("atomic_store");
            self.inner.store(v, o)
        }
        pub fn swap(&self, v: bool, o: Ordering) -> bool {
            point("atomic_rmw");
            self.inner.swap(v, o)
        }
        pub fn fetch_or(&self, v: bool, o: Ordering) -> bool {
            point("atomic_rmw");
            self.inner.fetch_or(v, o)
        }
        pub fn fetch_and(&self, v: bool, o: Ordering) -> bool {
            point("atomic_rmw");
            self.inner.fetch_and(v, o)
        }
        pub fn compare_exchange(&self, c: bool, n: bool, s: Ordering, f: Ordering) -> Result<bool, bool> {
            point("atomic_rmw");
            self.inner.compare_exchange(c, n, s, f)
        }
        pub fn compare_exchange_weak(&self, c: bool, n: bool, s: Ordering, f: Ordering) -> Result<bool, bool> {
            point("atomic_rmw");
            self.inner.compare_exchange(c, n, s, f)
        }
        pub fn into_inner(self) -> bool {
            self.inner.into_inner()
        }
    }
}
