//! `par_iter_mut().map(f).collect()` with the rayon names.
//!
//! Inside a simulation: W simulated pool workers (W = `SimConfig::workers`) repeatedly claim an
//! unclaimed element — which one is the scheduler's (recorded) random choice, so any worker can
//! get any element in any order, as with work stealing — run the closure on it with scheduling
//! points wherever the closure has them, and results are placed by index.
//! Outside a simulation: real rayon.

pub mod prelude {
    pub use super::IntoParallelRefMutIterator;
}

pub trait IntoParallelRefMutIterator<'a> {
    type Item: Send + 'a;
    fn par_iter_mut(&'a mut self) -> ParIterMut<'a, Self::Item>;
}

impl<'a, T: Send + 'a> IntoParallelRefMutIterator<'a> for Vec<T> {
    type Item = T;
    fn par_iter_mut(&'a mut self) -> ParIterMut<'a, T> {
        ParIterMut { slice: self.as_mut_slice() }
    }
}
impl<'a, T: Send + 'a> IntoParallelRefMutIterator<'a> for [T] {
    type Item = T;
    fn par_iter_mut(&'a mut self) -> ParIterMut<'a, T> {
        ParIterMut { slice: self }
    }
}

pub struct ParIterMut<'a, T> {
    slice: &'a mut [T],
}

impl<'a, T: Send> ParIterMut<'a, T> {
    pub fn map<F, R>(self, f: F) -> ParMap<'a, T, F>
    where
        F: Fn(&mut T) -> R + Sync + Send,
        R: Send,
    {
        ParMap { slice: self.slice, f }
    }
}

pub struct ParMap<'a, T, F> {
    slice: &'a mut [T],
    f: F,
}

impl<'a, T: Send, F> ParMap<'a, T, F> {
    pub fn collect<C, R>(self) -> C
    where
        F: Fn(&mut T) -> R + Sync + Send,
        R: Send,
        C: FromIterator<R>,
    {
        if !crate::in_sim() {
            use rayon::iter::ParallelIterator;
            let f = &self.f;
            let v: Vec<R> = rayon::iter::IntoParallelRefMutIterator::par_iter_mut(self.slice)
                .map(|x| f(x))
                .collect();
            return v.into_iter().collect();
        }
        let n = self.slice.len();
        if n == 0 {
            return std::iter::empty().collect();
        }
        let w = crate::sim::workers().min(n).max(1);
        let items: Vec<Option<&mut T>> = self.slice.iter_mut().map(Some).collect();
        let results: Vec<Option<R>> = (0..n).map(|_| None).collect();
        let pool = shuttle::sync::Mutex::new((items, results, n));
        let f = &self.f;
        let pool_ref = &pool;
        crate::sim::count("par_calls", 1);
        shuttle::thread::scope(|s| {
            for _ in 0..w {
                s.spawn(move || loop {
                    let claimed = {
                        let mut g = pool_ref.lock().unwrap();
                        if g.2 == 0 {
                            None
                        } else {
                            let k = (crate::sim::sim_random_u64() % g.2 as u64) as usize;
                            let idx = g
                                .0
                                .iter()
                                .enumerate()
                                .filter(|(_, it)| it.is_some())
                                .nth(k)
                                .map(|(i, _)| i)
                                .unwrap();
                            g.2 -= 1;
                            Some((idx, g.0[idx].take().unwrap()))
                        }
                    };
                    match claimed {
                        None => break,
                        Some((idx, item)) => {
                            crate::sim::event("par_claim", idx as u64);
                            let r = f(item);
                            crate::sim::event("par_done", idx as u64);
                            pool_ref.lock().unwrap().1[idx] = Some(r);
                        }
                    }
                });
            }
        });
        let (_, results, _) = pool.into_inner().unwrap();
        results.into_iter().map(|r| r.expect("par: element without result")).collect()
    }
}
