//! Crafted `SmallRng` states: a generator whose next 64-bit output is any chosen word.
//!
//! rand 0.9's `SmallRng` on 64-bit targets is xoshiro256++: out = rotl(s0 + s3, 23) + s0.
//! With s0, s1, s2 fixed, s3 = rotr(out - s0, 23) - s0 gives the chosen output. Self-checking:
//! the crafted generator is cloned and drawn from; a mismatch (e.g. a rand upgrade changing the
//! state layout) aborts with a harness error rather than producing wrong verdicts.

use rand::rngs::SmallRng;
use rand::{Rng, RngCore, SeedableRng};

pub fn craft_small_rng(next_raw: u64) -> SmallRng {
    let s0: u64 = 0x9E37_79B9_7F4A_7C15;
    let s1: u64 = 0xD1B5_4A32_D192_ED03;
    let s2: u64 = 0x8CB9_2BA7_2F3D_8DD7;
    let s3 = next_raw.wrapping_sub(s0).rotate_right(23).wrapping_sub(s0);
    let mut seed = [0u8; 32];
    seed[0..8].copy_from_slice(&s0.to_le_bytes());
    seed[8..16].copy_from_slice(&s1.to_le_bytes());
    seed[16..24].copy_from_slice(&s2.to_le_bytes());
    seed[24..32].copy_from_slice(&s3.to_le_bytes());
    let rng = SmallRng::from_seed(seed);
    let mut probe = rng.clone();
    let got = probe.next_u64();
    if got != next_raw {
        eprintln!("HARNESS-ERROR: craft_small_rng self-check failed (wanted {next_raw:#x}, got {got:#x}); SmallRng is not xoshiro256++ with the expected layout");
        std::process::exit(2);
    }
    rng
}

/// raw word -> the f64 in [0,1) `rng.random::<f64>()` yields for it (self-checked once)
pub fn f64_of_raw(raw: u64) -> f64 {
    (raw >> 11) as f64 * (1.0 / (1u64 << 53) as f64)
}
/// raw word -> the f32 in [0,1) `rng.random::<f32>()` yields for it
pub fn f32_of_raw(raw: u64) -> f32 {
    ((raw >> 40) as u32) as f32 * (1.0 / (1u32 << 24) as f32)
}
/// a raw word whose f64 uniform is k * 2^-53
pub fn raw_for_f64_k(k: u64) -> u64 {
    debug_assert!(k < (1u64 << 53));
    k << 11
}
/// a raw word whose f32 uniform is k * 2^-24
pub fn raw_for_f32_k(k: u32) -> u64 {
    debug_assert!(k < (1u32 << 24));
    (k as u64) << 40
}

/// verify the raw->uniform mappings against the library generator (a few probes); exit 2 on mismatch
pub fn self_check() {
    for raw in [0u64, 1 << 11, 1 << 40, u64::MAX, 0x0123_4567_89ab_cdef, 0xfedc_ba98_7654_3210] {
        let mut r = craft_small_rng(raw);
        let a: f64 = r.random();
        let mut r = craft_small_rng(raw);
        let b: f32 = r.random();
        if a.to_bits() != f64_of_raw(raw).to_bits() || b.to_bits() != f32_of_raw(raw).to_bits() {
            eprintln!("HARNESS-ERROR: uniform mapping self-check failed for raw {raw:#x}: f64 {a} vs {}, f32 {b} vs {}", f64_of_raw(raw), f32_of_raw(raw));
            std::process::exit(2);
        }
    }
}
