//! Dual targets for the gradient samplers: every target exists twice — as burn code handed to the
//! library (BatchedGradientTarget / GradientTarget) and as a plain-f64 log-density with analytic
//! gradient used by the reference integrators and by the admissibility oracle.

use crate::core::Gen;
use burn::prelude::*;
use burn::tensor::backend::AutodiffBackend;
use burn::tensor::Element;
use mini_mcmc::distributions::{BatchedGradientTarget, DiffableGaussian2D, GradientTarget, Rosenbrock2D, RosenbrockND};
use num_traits::Float;
use serde_json::{json, Value};
use std::sync::atomic::{AtomicU64, Ordering};
use std::sync::Arc;

#[derive(Clone, Debug, PartialEq)]
pub enum GKind {
    /// -1/2 (x-mu)^T A (x-mu), A SPD
    Gauss,
    /// the library's Rosenbrock2D {a, b}
    LibRosen2D,
    /// the library's RosenbrockND
    LibRosenND,
    /// the library's DiffableGaussian2D (mean mu, covariance = inverse of A)
    LibGauss2D,
    /// -(nu+d)/2 ln(1 + |x|^2/nu)
    StudentT,
    /// -sum x^4/4 - sum x^2/2
    Quartic,
    /// funnel-like: v = x0 ~ N(0, 1.5^2), x_i | v ~ N(0, e^{v}) :  -v^2/4.5 - (d-1) v/2 - e^{-v} sum x_i^2 / 2
    Funnel,
    // ---- targets with bounded support / NaN regions (C14) ----
    /// sum (log x_i - x_i): NaN for x_i < 0 (log of a negative argument), -inf at 0
    HalfLineLog,
    /// standard normal restricted to the box |x_i| <= c : -inf outside (mask)
    Box,
    /// -1/2|x|^2 + sum sqrt(c - x_i) - ... NaN for x_i > c (sqrt of a negative argument)
    SqrtEdge,
    /// standard normal whose log-density is NaN beyond radius c
    NanBeyond,
    /// standard normal with a cliff: -inf for x_0 > c
    Cliff,
    /// -|x| (Euclidean norm through sqrt of the sum of squares): finite everywhere, but the gradient at
    /// the origin is undefined (NaN, also from autodiff: 0 * inf)
    Kink,
}

#[derive(Clone, Debug)]
pub struct GTarget {
    pub kind: GKind,
    pub d: usize,
    pub a: Vec<f64>,  // precision, row-major d x d (Gauss / LibGauss2D)
    pub mu: Vec<f64>, // mean
    pub nu: f64,
    pub ra: f64,
    pub rb: f64,
    pub c: f64,
    /// additive constant of the log-density (an unnormalised density may carry any): gradient-free,
    /// but it sets the magnitude at which energies are compared
    pub offset: f64,
    /// evaluation counter (hang detector: a transition may not evaluate the target unboundedly often)
    pub evals: Arc<AtomicU64>,
    pub eval_budget: u64,
    /// fault: the evaluations numbered crash_at .. crash_at + crash_len (counted over all clones) panic
    pub crash_at: u64,
    pub crash_len: u64,
}

pub const EVAL_BUDGET_MSG: &str = "VERIF-EVAL-BUDGET exceeded: unbounded trajectory";

impl GTarget {
    pub fn describe(&self) -> Value {
        json!({"kind": format!("{:?}", self.kind), "d": self.d, "nu": self.nu, "a": self.ra, "b": self.rb, "c": self.c, "offset": self.offset, "mu": self.mu, "precision_head": self.a.iter().take(9).collect::<Vec<_>>()})
    }

    pub fn new(kind: GKind, d: usize) -> Self {
        GTarget { kind, d, a: vec![], mu: vec![0.0; d], nu: 3.0, ra: 1.0, rb: 10.0, c: 1.0, offset: 0.0, evals: Arc::new(AtomicU64::new(0)), eval_budget: u64::MAX, crash_at: u64::MAX, crash_len: 1 }
    }

    /// random SPD precision with condition number up to `cond`
    pub fn gauss(g: &mut Gen, d: usize, cond: f64) -> Self {
        let mut t = GTarget::new(GKind::Gauss, d);
        // A = Q diag(l) Q^T with Q from Gram-Schmidt of a random matrix
        let mut q: Vec<Vec<f64>> = (0..d).map(|_| (0..d).map(|_| g.normal()).collect()).collect();
        for i in 0..d {
            for j in 0..i {
                let dot: f64 = (0..d).map(|k| q[i][k] * q[j][k]).sum();
                for k in 0..d {
                    q[i][k] -= dot * q[j][k];
                }
            }
            let n: f64 = q[i].iter().map(|x| x * x).sum::<f64>().sqrt().max(1e-12);
            for k in 0..d {
                q[i][k] /= n;
            }
        }
        let l: Vec<f64> = (0..d).map(|_| g.log_uniform(1.0 / cond.sqrt(), cond.sqrt())).collect();
        let mut a = vec![0.0; d * d];
        for r in 0..d {
            for c in 0..d {
                a[r * d + c] = (0..d).map(|k| q[k][r] * l[k] * q[k][c]).sum();
            }
        }
        // symmetrise exactly
        for r in 0..d {
            for c in 0..r {
                let m = 0.5 * (a[r * d + c] + a[c * d + r]);
                a[r * d + c] = m;
                a[c * d + r] = m;
            }
        }
        t.a = a;
        t.mu = (0..d).map(|_| g.f64_in(-1.0, 1.0)).collect();
        t
    }

    fn bump(&self) {
        let n = self.evals.fetch_add(1, Ordering::Relaxed) + 1;
        if n >= self.crash_at && n - self.crash_at < self.crash_len {
            mcmc_sim::sim::count("fault_worker_crash_injected", 1);
            panic!("VERIF-INJECTED target failure at evaluation {n}");
        }
        if n > self.eval_budget {
            panic!("{}", EVAL_BUDGET_MSG);
        }
    }

    // ---------------------------------------------------------------- plain f64 side
    /// parameters as the library's DiffableGaussian2D actually uses them: inverse covariance computed
    /// in f64 by its constructor, then mean and inverse covariance narrowed to f32 by `from_floats`
    fn lib_gauss_eff(&self) -> ([f64; 2], [f64; 4]) {
        let det = self.a[0] * self.a[3] - self.a[1] * self.a[2];
        let cov = [[self.a[3] / det, -self.a[1] / det], [-self.a[2] / det, self.a[0] / det]];
        let t = DiffableGaussian2D::new([self.mu[0], self.mu[1]], cov);
        let r = |v: f64| v as f32 as f64;
        ([r(t.mean[0]), r(t.mean[1])], [r(t.inv_cov[0][0]), r(t.inv_cov[0][1]), r(t.inv_cov[1][0]), r(t.inv_cov[1][1])])
    }

    pub fn logp(&self, x: &[f64]) -> f64 {
        self.logp0(x) + self.offset
    }

    fn logp0(&self, x: &[f64]) -> f64 {
        let d = self.d;
        match self.kind {
            GKind::LibGauss2D => {
                let (mu, a) = self.lib_gauss_eff();
                let mut s = 0.0;
                for r in 0..2 {
                    for c in 0..2 {
                        s += (x[r] - mu[r]) * a[r * 2 + c] * (x[c] - mu[c]);
                    }
                }
                -0.5 * s
            }
            GKind::Gauss => {
                let mut s = 0.0;
                for r in 0..d {
                    for c in 0..d {
                        s += (x[r] - self.mu[r]) * self.a[r * d + c] * (x[c] - self.mu[c]);
                    }
                }
                -0.5 * s
            }
            GKind::LibRosen2D => -((self.ra - x[0]).powi(2) + self.rb * (x[1] - x[0] * x[0]).powi(2)),
            GKind::LibRosenND => -(0..d - 1).map(|i| 100.0 * (x[i + 1] - x[i] * x[i]).powi(2) + (1.0 - x[i]).powi(2)).sum::<f64>(),
            GKind::StudentT => {
                let r2: f64 = x.iter().map(|v| v * v).sum();
                -(self.nu + d as f64) / 2.0 * (1.0 + r2 * (1.0 / self.nu)).ln()
            }
            GKind::Quartic => -x.iter().map(|v| v.powi(4) / 4.0 + v * v / 2.0).sum::<f64>(),
            GKind::Funnel => {
                let v = x[0];
                let s: f64 = x[1..].iter().map(|z| z * z).sum();
                -v * v / 4.5 - (d as f64 - 1.0) * v / 2.0 - (-v).exp() * s / 2.0
            }
            GKind::HalfLineLog => x.iter().map(|v| v.ln() - v).sum::<f64>(),
            GKind::Box => {
                if x.iter().any(|v| v.abs() > self.c) {
                    f64::NEG_INFINITY
                } else {
                    -0.5 * x.iter().map(|v| v * v).sum::<f64>()
                }
            }
            GKind::SqrtEdge => -0.5 * x.iter().map(|v| v * v).sum::<f64>() + x.iter().map(|v| (self.c - v).sqrt()).sum::<f64>(),
            GKind::NanBeyond => {
                let r2: f64 = x.iter().map(|v| v * v).sum();
                if r2 > self.c * self.c {
                    f64::NAN
                } else {
                    -0.5 * r2
                }
            }
            GKind::Cliff => {
                if x[0] > self.c {
                    f64::NEG_INFINITY
                } else {
                    -0.5 * x.iter().map(|v| v * v).sum::<f64>()
                }
            }
            GKind::Kink => -x.iter().map(|v| v * v).sum::<f64>().sqrt(),
        }
    }

    pub fn grad(&self, x: &[f64]) -> Vec<f64> {
        let d = self.d;
        match self.kind {
            GKind::LibGauss2D => {
                let (mu, a) = self.lib_gauss_eff();
                (0..2).map(|r| -(0..2).map(|c| 0.5 * (a[r * 2 + c] + a[c * 2 + r]) * (x[c] - mu[c])).sum::<f64>()).collect()
            }
            GKind::Gauss => (0..d).map(|r| -(0..d).map(|c| 0.5 * (self.a[r * d + c] + self.a[c * d + r]) * (x[c] - self.mu[c])).sum::<f64>()).collect(),
            GKind::LibRosen2D => {
                let (a, b) = (self.ra, self.rb);
                vec![2.0 * (a - x[0]) + 4.0 * b * x[0] * (x[1] - x[0] * x[0]), -2.0 * b * (x[1] - x[0] * x[0])]
            }
            GKind::LibRosenND => {
                let mut g = vec![0.0; d];
                for i in 0..d - 1 {
                    let t = x[i + 1] - x[i] * x[i];
                    g[i] += 400.0 * x[i] * t + 2.0 * (1.0 - x[i]);
                    g[i + 1] += -200.0 * t;
                }
                g
            }
            GKind::StudentT => {
                let r2: f64 = x.iter().map(|v| v * v).sum();
                x.iter().map(|v| -(self.nu + d as f64) * v / (self.nu + r2)).collect()
            }
            GKind::Quartic => x.iter().map(|v| -v.powi(3) - v).collect(),
            GKind::Funnel => {
                let v = x[0];
                let s: f64 = x[1..].iter().map(|z| z * z).sum();
                let mut g = vec![-2.0 * v / 4.5 - (d as f64 - 1.0) / 2.0 + (-v).exp() * s / 2.0];
                g.extend(x[1..].iter().map(|z| -(-v).exp() * z));
                g
            }
            GKind::HalfLineLog => x.iter().map(|v| 1.0 / v - 1.0).collect(),
            GKind::Box | GKind::NanBeyond | GKind::Cliff => x.iter().map(|v| -v).collect(),
            GKind::SqrtEdge => x.iter().map(|v| -v - 0.5 / (self.c - v).sqrt()).collect(),
            GKind::Kink => {
                let r = x.iter().map(|v| v * v).sum::<f64>().sqrt();
                x.iter().map(|v| -v / r).collect()
            }
        }
    }

    /// distance of x to the nearest point where the log-density stops being finite / continuous (the
    /// support boundary, the NaN region, the cliff); infinite for the smooth targets
    pub fn boundary_distance(&self, x: &[f64]) -> f64 {
        let m = |it: &mut dyn Iterator<Item = f64>| it.fold(f64::INFINITY, |a, b| if b.is_nan() { 0.0 } else { a.min(b.abs()) });
        match self.kind {
            GKind::HalfLineLog => m(&mut x.iter().map(|v| *v)),
            GKind::Box => m(&mut x.iter().map(|v| self.c - v.abs())),
            GKind::SqrtEdge => m(&mut x.iter().map(|v| self.c - v)),
            GKind::NanBeyond => (self.c - x.iter().map(|v| v * v).sum::<f64>().sqrt()).abs(),
            GKind::Cliff => (self.c - x[0]).abs(),
            _ => f64::INFINITY,
        }
    }

    /// finite density (> -inf, not NaN) and finite coordinates
    pub fn admissible(&self, x: &[f64]) -> bool {
        x.iter().all(|v| v.is_finite()) && self.logp(x).is_finite()
    }

    // ---------------------------------------------------------------- burn side
    pub fn batch<B: AutodiffBackend>(&self, x: Tensor<B, 2>) -> Tensor<B, 1> {
        let lp = self.batch0(x);
        if self.offset != 0.0 {
            lp.add_scalar(self.offset)
        } else {
            lp
        }
    }

    fn batch0<B: AutodiffBackend>(&self, x: Tensor<B, 2>) -> Tensor<B, 1> {
        self.bump();
        let dev = x.device();
        let n = x.dims()[0];
        let d = self.d;
        match self.kind {
            GKind::Gauss => {
                let mu = Tensor::<B, 2>::from_data(TensorData::new(self.mu.clone(), [1, d]), &dev).expand([n, d]);
                let a = Tensor::<B, 2>::from_data(TensorData::new(self.a.clone(), [d, d]), &dev);
                let delta = x - mu;
                (delta.clone().matmul(a) * delta).sum_dim(1).squeeze::<1>(1).mul_scalar(-0.5)
            }
            GKind::LibGauss2D => {
                // covariance = A^{-1}
                let det = self.a[0] * self.a[3] - self.a[1] * self.a[2];
                let cov = [[self.a[3] / det, -self.a[1] / det], [-self.a[2] / det, self.a[0] / det]];
                let t = DiffableGaussian2D::new([self.mu[0], self.mu[1]], cov);
                let lp: Tensor<B, 1> = <DiffableGaussian2D<f64> as BatchedGradientTarget<f64, B>>::unnorm_logp_batch(&t, x);
                lp.sub_scalar(t.norm_const)
            }
            GKind::LibRosen2D => <Rosenbrock2D<f64> as BatchedGradientTarget<f64, B>>::unnorm_logp_batch(&Rosenbrock2D { a: self.ra, b: self.rb }, x),
            GKind::LibRosenND => <RosenbrockND as BatchedGradientTarget<f64, B>>::unnorm_logp_batch(&RosenbrockND {}, x),
            GKind::StudentT => {
                let r2 = x.powi_scalar(2).sum_dim(1).squeeze::<1>(1);
                r2.mul_scalar(1.0 / self.nu).add_scalar(1.0).log() // (burn-autodiff differentiates div_scalar with an f32 reciprocal: avoided)
                    .mul_scalar(-(self.nu + d as f64) / 2.0)
            }
            GKind::Quartic => (x.clone().powi_scalar(4).mul_scalar(-0.25) - x.powi_scalar(2).mul_scalar(0.5)).sum_dim(1).squeeze::<1>(1),
            GKind::Funnel => {
                let v = x.clone().slice([0..n, 0..1]).squeeze::<1>(1);
                let s = if d > 1 { x.slice([0..n, 1..d]).powi_scalar(2).sum_dim(1).squeeze::<1>(1) } else { v.clone().mul_scalar(0.0) };
                v.clone().powi_scalar(2).mul_scalar(-1.0 / 4.5) - v.clone().mul_scalar((d as f64 - 1.0) / 2.0) - v.neg().exp() * s.mul_scalar(0.5)
            }
            GKind::HalfLineLog => (x.clone().log() - x).sum_dim(1).squeeze::<1>(1),
            GKind::Box => {
                let lp = x.clone().powi_scalar(2).sum_dim(1).squeeze::<1>(1).mul_scalar(-0.5);
                let outside = x.abs().greater_elem(self.c).any_dim(1).squeeze::<1>(1);
                lp.mask_fill(outside, f64::NEG_INFINITY)
            }
            GKind::SqrtEdge => x.clone().powi_scalar(2).sum_dim(1).squeeze::<1>(1).mul_scalar(-0.5) + x.neg().add_scalar(self.c).sqrt().sum_dim(1).squeeze::<1>(1),
            GKind::NanBeyond => {
                let r2 = x.powi_scalar(2).sum_dim(1).squeeze::<1>(1);
                let beyond = r2.clone().greater_elem(self.c * self.c);
                r2.mul_scalar(-0.5).mask_fill(beyond, f64::NAN)
            }
            GKind::Cliff => {
                let lp = x.clone().powi_scalar(2).sum_dim(1).squeeze::<1>(1).mul_scalar(-0.5);
                let over = x.slice([0..n, 0..1]).squeeze::<1>(1).greater_elem(self.c);
                lp.mask_fill(over, f64::NEG_INFINITY)
            }
            GKind::Kink => x.powi_scalar(2).sum_dim(1).squeeze::<1>(1).sqrt().neg(),
        }
    }
}

impl<T: Float + Element, B: AutodiffBackend> BatchedGradientTarget<T, B> for GTarget {
    fn unnorm_logp_batch(&self, positions: Tensor<B, 2>) -> Tensor<B, 1> {
        self.batch(positions)
    }
}

impl<T: Float + Element, B: AutodiffBackend> GradientTarget<T, B> for GTarget {
    fn unnorm_logp(&self, position: Tensor<B, 1>) -> Tensor<B, 1> {
        let d = position.dims()[0];
        self.batch(position.reshape([1, d]))
    }
}

/// generate a smooth target for the integrator checks (C02 / C03 / C04 / C06)
pub fn gen_smooth(g: &mut Gen, for_nuts: bool) -> GTarget {
    match g.range(0, 9) {
        0 | 1 | 2 => {
            let d = g.usize(1, if for_nuts { 8 } else { 16 });
            let cond = *g.pick(&[1.0, 4.0, 25.0, 100.0]);
            GTarget::gauss(g, d, cond)
        }
        3 => {
            let mut t = GTarget::gauss(g, 2, 9.0);
            t.kind = GKind::LibGauss2D;
            t
        }
        4 => {
            let mut t = GTarget::new(GKind::LibRosen2D, 2);
            t.ra = g.f64_in(0.5, 1.5);
            t.rb = *g.pick(&[1.0, 5.0, 20.0, 100.0]);
            t
        }
        5 => GTarget::new(GKind::LibRosenND, g.usize(2, 5)),
        6 => {
            let mut t = GTarget::new(GKind::StudentT, g.usize(1, 6));
            t.nu = g.f64_in(1.0, 8.0);
            t
        }
        7 => GTarget::new(GKind::Quartic, g.usize(1, 6)),
        _ => GTarget::new(GKind::Funnel, g.usize(2, 5)),
    }
}

/// velocity-Verlet (leapfrog) in f64 on the analytic gradient: exactly `l` steps of size `eps`
pub fn ref_leapfrog(t: &GTarget, x: &[f64], p: &[f64], eps: f64, l: usize) -> (Vec<f64>, Vec<f64>) {
    let mut x = x.to_vec();
    let mut p = p.to_vec();
    for _ in 0..l {
        let g = t.grad(&x);
        for i in 0..x.len() {
            p[i] += 0.5 * eps * g[i];
        }
        for i in 0..x.len() {
            x[i] += eps * p[i];
        }
        let g = t.grad(&x);
        for i in 0..x.len() {
            p[i] += 0.5 * eps * g[i];
        }
    }
    (x, p)
}

/// largest gradient component met along the reference trajectory (start and end of every step)
pub fn ref_leapfrog_gmax(t: &GTarget, x: &[f64], p: &[f64], eps: f64, l: usize) -> f64 {
    let mut x = x.to_vec();
    let mut p = p.to_vec();
    let mut gmax = t.grad(&x).iter().fold(0.0f64, |a, b| a.max(b.abs()));
    for _ in 0..l {
        let g = t.grad(&x);
        for i in 0..x.len() {
            p[i] += 0.5 * eps * g[i];
        }
        for i in 0..x.len() {
            x[i] += eps * p[i];
        }
        let g = t.grad(&x);
        gmax = gmax.max(g.iter().fold(0.0f64, |a, b| a.max(b.abs())));
        for i in 0..x.len() {
            p[i] += 0.5 * eps * g[i];
        }
    }
    if gmax.is_nan() {
        f64::INFINITY
    } else {
        gmax
    }
}

pub fn hamiltonian(t: &GTarget, x: &[f64], p: &[f64]) -> f64 {
    -t.logp(x) + 0.5 * p.iter().map(|v| v * v).sum::<f64>()
}
