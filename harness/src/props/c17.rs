//! C17 — CSV / Arrow / Parquet export round-trips every value with correct labels;
//! an unwritable path / failing disk yields an error, not a panic or a partial success.

use super::*;
use arrow::array::{Array, Float64Array, UInt32Array};
use arrow::datatypes::DataType;
use burn::backend::NdArray;
use burn::prelude::*;
use mcmc_sim::fs::{self as sfs, CreateFault, FaultPlan, WriteFault};
use mini_mcmc::io::arrow::save_arrow;
use mini_mcmc::io::csv::{save_csv, save_csv_tensor};
use mini_mcmc::io::parquet::{save_parquet, save_parquet_tensor};
use ndarray::Array3;
use std::collections::BTreeMap;

pub fn def() -> PropertyDef {
    PropertyDef {
        id: "C17",
        level: "fault_enumeration",
        scenarios: vec![Box::new(IoFaults), Box::new(RealDisk)],
        assumptions: vec![
            "the disk is the simulator's in-memory file behind the cfg-switched File import; the csv / arrow-ipc / parquet writers and readers are the real crates",
            "the oracle is the single implication 'Ok => the bytes on disk parse into exactly the documented rows'; after an injected fault either result is allowed, but an Ok still has to come with a complete file",
        ],
    }
}

#[derive(Clone, Debug)]
struct Cells {
    shape: [usize; 3],
    /// value of cell (a, b, j) widened to f64, row-major over `shape`
    vals: Vec<f64>,
}

fn special_f64(g: &mut Gen) -> f64 {
    match g.range(0, 11) {
        0 => f64::NAN,
        1 => f64::INFINITY,
        2 => f64::NEG_INFINITY,
        3 => -0.0,
        4 => f64::MIN_POSITIVE / 8.0,
        5 => f64::MAX,
        6 => f64::MIN,
        7 => 5e-324,
        8 => 0.1,
        9 => -1.0e-7,
        _ => 1.0e21,
    }
}
fn special_f32(g: &mut Gen) -> f32 {
    match g.range(0, 9) {
        0 => f32::NAN,
        1 => f32::INFINITY,
        2 => f32::NEG_INFINITY,
        3 => -0.0,
        4 => f32::MIN_POSITIVE / 8.0,
        5 => f32::MAX,
        6 => f32::MIN,
        7 => 1.0e-45,
        _ => 0.1,
    }
}

trait IoElt: Copy + std::fmt::Display + std::str::FromStr + Send + 'static {
    fn gen(g: &mut Gen, specials: bool, uniq: u64) -> Self;
    fn wide(self) -> f64;
    const NAME: &'static str;
}
impl IoElt for f64 {
    fn gen(g: &mut Gen, specials: bool, uniq: u64) -> f64 {
        if specials && g.bool(1, 4) {
            special_f64(g)
        } else if specials && g.bool(1, 3) {
            // any bit pattern: random mantissas at every exponent (tiny, huge, subnormal, NaN payloads)
            f64::from_bits(g.u64())
        } else {
            (uniq as f64) + g.f64() * 0.5 - 0.25 + if g.bool(1, 8) { g.normal() * 1e10 } else { 0.0 }
        }
    }
    fn wide(self) -> f64 {
        self
    }
    const NAME: &'static str = "f64";
}
impl IoElt for f32 {
    fn gen(g: &mut Gen, specials: bool, uniq: u64) -> f32 {
        if specials && g.bool(1, 4) {
            special_f32(g)
        } else if specials && g.bool(1, 3) {
            f32::from_bits(g.u64() as u32)
        } else {
            (uniq as f32) + (g.f64() as f32) * 0.5 - 0.25
        }
    }
    fn wide(self) -> f64 {
        self as f64
    }
    const NAME: &'static str = "f32";
}
impl IoElt for i32 {
    fn gen(g: &mut Gen, specials: bool, uniq: u64) -> i32 {
        if specials && g.bool(1, 4) {
            *g.pick(&[0, -1, i32::MAX, i32::MIN])
        } else {
            uniq as i32 * 3 - 1000
        }
    }
    fn wide(self) -> f64 {
        self as f64
    }
    const NAME: &'static str = "i32";
}
impl IoElt for usize {
    fn gen(g: &mut Gen, specials: bool, uniq: u64) -> usize {
        if specials && g.bool(1, 4) {
            *g.pick(&[0usize, 1, usize::MAX, 1 << 53])
        } else {
            uniq as usize * 7
        }
    }
    fn wide(self) -> f64 {
        self as f64
    }
    const NAME: &'static str = "usize";
}

fn same_val(a: f64, b: f64) -> bool {
    a.to_bits() == b.to_bits() || (a.is_nan() && b.is_nan())
}

/// what a complete, correct file must contain: for every (chain, observation) the row of values
fn expected_rows(cells: &Cells, obs_major: bool) -> BTreeMap<(u32, u32), Vec<f64>> {
    let [a, b, d] = cells.shape;
    let mut m = BTreeMap::new();
    for i in 0..a {
        for j in 0..b {
            let row: Vec<f64> = (0..d).map(|k| cells.vals[(i * b + j) * d + k]).collect();
            // array entry points: axis 0 = chain, axis 1 = observation; parquet tensor variant: axis 0 = observation, axis 1 = chain
            let key = if obs_major { (j as u32, i as u32) } else { (i as u32, j as u32) };
            m.insert(key, row);
        }
    }
    m
}

/// parse CSV bytes: returns rows keyed by (chain, observation) with values parsed as T and widened
fn parse_csv<T: IoElt>(bytes: &[u8], d: usize) -> Result<Vec<((u32, u32), Vec<f64>)>, String> {
    let mut rdr = csv::ReaderBuilder::new().has_headers(true).from_reader(bytes);
    let hdr = rdr.headers().map_err(|e| format!("header: {e}"))?.clone();
    let mut want = vec!["chain".to_string(), "observation".to_string()];
    want.extend((0..d).map(|i| format!("dim_{i}")));
    let got: Vec<String> = hdr.iter().map(|s| s.to_string()).collect();
    if got != want {
        return Err(format!("header {got:?}, expected {want:?}"));
    }
    let mut rows = vec![];
    for rec in rdr.records() {
        let rec = rec.map_err(|e| format!("record: {e}"))?;
        if rec.len() != d + 2 {
            return Err(format!("record with {} fields, expected {}", rec.len(), d + 2));
        }
        let c: u32 = rec[0].parse().map_err(|_| format!("chain label {:?}", &rec[0]))?;
        let o: u32 = rec[1].parse().map_err(|_| format!("observation label {:?}", &rec[1]))?;
        let mut v = vec![];
        for k in 0..d {
            let x: T = rec[2 + k].parse().map_err(|_| format!("value {:?} does not parse as {}", &rec[2 + k], T::NAME))?;
            v.push(x.wide());
        }
        rows.push(((c, o), v));
    }
    Ok(rows)
}

fn batches_to_rows(batches: Vec<arrow::record_batch::RecordBatch>, schema: arrow::datatypes::SchemaRef, d: usize, first: &str, second: &str) -> Result<Vec<((u32, u32), Vec<f64>)>, String> {
    let mut want = vec![(first.to_string(), DataType::UInt32), (second.to_string(), DataType::UInt32)];
    want.extend((0..d).map(|i| (format!("dim_{i}"), DataType::Float64)));
    let got: Vec<(String, DataType)> = schema.fields().iter().map(|f| (f.name().clone(), f.data_type().clone())).collect();
    if got != want {
        return Err(format!("schema {got:?}, expected {want:?}"));
    }
    let mut rows = vec![];
    for b in batches {
        let c0 = b.column(0).as_any().downcast_ref::<UInt32Array>().ok_or("col0 type")?;
        let c1 = b.column(1).as_any().downcast_ref::<UInt32Array>().ok_or("col1 type")?;
        let dims: Vec<&Float64Array> = (0..d).map(|k| b.column(2 + k).as_any().downcast_ref::<Float64Array>().unwrap()).collect();
        for r in 0..b.num_rows() {
            if c0.is_null(r) || c1.is_null(r) || dims.iter().any(|c| c.is_null(r)) {
                return Err("null cell".into());
            }
            // always report as (chain, observation)
            let key = if first == "chain" { (c0.value(r), c1.value(r)) } else { (c1.value(r), c0.value(r)) };
            rows.push((key, dims.iter().map(|c| c.value(r)).collect()));
        }
    }
    Ok(rows)
}

/// a standard reader that panics on the file did not read it back: that is a verdict about the file (the
/// save reported success), not a failure of the harness
fn reader_contained<R>(what: &str, f: impl FnOnce() -> Result<R, String>) -> Result<R, String> {
    let _ = mcmc_sim::sim::take_last_panic();
    match std::panic::catch_unwind(std::panic::AssertUnwindSafe(f)) {
        Ok(r) => r,
        Err(_) => Err(format!("{what} reader panicked on the file: {}", mcmc_sim::sim::take_last_panic().unwrap_or_else(|| "panic".into()))),
    }
}
fn parse_arrow(bytes: &[u8], d: usize) -> Result<Vec<((u32, u32), Vec<f64>)>, String> {
    reader_contained("arrow", || parse_arrow_inner(bytes, d))
}
fn parse_parquet(bytes: &[u8], d: usize, first: &str, second: &str) -> Result<Vec<((u32, u32), Vec<f64>)>, String> {
    reader_contained("parquet", || parse_parquet_inner(bytes, d, first, second))
}
fn parse_arrow_inner(bytes: &[u8], d: usize) -> Result<Vec<((u32, u32), Vec<f64>)>, String> {
    let rdr = arrow::ipc::reader::FileReader::try_new(std::io::Cursor::new(bytes.to_vec()), None).map_err(|e| format!("arrow reader: {e}"))?;
    let schema = rdr.schema();
    let mut batches = vec![];
    for b in rdr {
        batches.push(b.map_err(|e| format!("arrow batch: {e}"))?);
    }
    batches_to_rows(batches, schema, d, "chain", "observation")
}

fn parse_parquet_inner(bytes: &[u8], d: usize, first: &str, second: &str) -> Result<Vec<((u32, u32), Vec<f64>)>, String> {
    let b = bytes::Bytes::from(bytes.to_vec());
    let builder = parquet::arrow::arrow_reader::ParquetRecordBatchReaderBuilder::try_new(b).map_err(|e| format!("parquet reader: {e}"))?;
    let schema = builder.schema().clone();
    let rdr = builder.build().map_err(|e| format!("parquet build: {e}"))?;
    let mut batches = vec![];
    for b in rdr {
        batches.push(b.map_err(|e| format!("parquet batch: {e}"))?);
    }
    batches_to_rows(batches, schema, d, first, second)
}

fn compare_rows(rows: Vec<((u32, u32), Vec<f64>)>, want: &BTreeMap<(u32, u32), Vec<f64>>) -> Result<(), String> {
    if rows.len() != want.len() {
        return Err(format!("{} rows, expected {} (one per (chain, observation) cell)", rows.len(), want.len()));
    }
    let mut seen = std::collections::BTreeSet::new();
    for (key, vals) in rows {
        if !seen.insert(key) {
            return Err(format!("label (chain {}, observation {}) appears twice", key.0, key.1));
        }
        let Some(w) = want.get(&key) else { return Err(format!("unexpected label (chain {}, observation {})", key.0, key.1)) };
        if vals.len() != w.len() || vals.iter().zip(w.iter()).any(|(a, b)| !same_val(*a, *b)) {
            return Err(format!("row (chain {}, observation {}) holds {:?}, stored values were {:?}", key.0, key.1, vals, w));
        }
    }
    Ok(())
}

#[derive(Clone, Copy, Debug, PartialEq)]
enum Fmt {
    Csv,
    CsvTensor,
    Arrow,
    Parquet,
    ParquetTensor,
}

struct SaveCase {
    fmt: Fmt,
    cells: Cells,
    /// performs the save (panics contained by the caller)
    save: Box<dyn Fn(&str) -> Result<(), String>>,
    /// parses bytes and compares with the expectation
    check: Box<dyn Fn(&[u8]) -> Result<(), String>>,
    desc: String,
    /// the shipped function refuses this input (e.g. the f32-only CSV tensor writer on an f64
    /// backend): an Err on a healthy disk is then legitimate; an Ok still has to round-trip
    may_refuse: bool,
}

/// The same logical array in another memory layout (the save functions take `&Array3<T>`, which may be
/// column-major, axis-permuted or carry a negative stride): 0 = C order, 1 = Fortran order,
/// 2 = first two axes permuted, 3 = middle axis inverted, 4 = all axes reversed
fn relayout<T: Copy>(arr: Array3<T>, mode: u64) -> Array3<T> {
    use ndarray::{Axis, ShapeBuilder};
    let (s0, s1, s2) = arr.dim();
    let out = match mode {
        1 => Array3::from_shape_fn((s0, s1, s2).f(), |idx| arr[idx]),
        2 => Array3::from_shape_fn((s1, s0, s2), |(b, a, j)| arr[(a, b, j)]).permuted_axes([1, 0, 2]),
        3 => {
            let mut r = Array3::from_shape_fn((s0, s1, s2), |(a, b, j)| arr[(a, s1 - 1 - b, j)]);
            r.invert_axis(Axis(1));
            r
        }
        4 => Array3::from_shape_fn((s2, s1, s0), |(j, b, a)| arr[(a, b, j)]).reversed_axes(),
        _ => return arr,
    };
    assert_eq!(out.dim(), (s0, s1, s2), "HARNESS-ERROR: relayout changed the logical shape");
    out
}

fn make_array_case<T: IoElt>(fmt: Fmt, shape: [usize; 3], g: &mut Gen, specials: bool, layout: u64) -> SaveCase
where
    T: Into<f64>,
{
    let n = shape[0] * shape[1] * shape[2];
    let data: Vec<T> = (0..n).map(|i| T::gen(g, specials, i as u64)).collect();
    let cells = Cells { shape, vals: data.iter().map(|x| x.wide()).collect() };
    let arr = relayout(Array3::from_shape_vec((shape[0], shape[1], shape[2]), data).unwrap(), layout);
    let d = shape[2];
    let want = expected_rows(&cells, false);
    let (save, check): (Box<dyn Fn(&str) -> Result<(), String>>, Box<dyn Fn(&[u8]) -> Result<(), String>>) = match fmt {
        Fmt::Csv => (
            Box::new(move |f| save_csv(&arr, f).map_err(|e| e.to_string())),
            Box::new(move |b| parse_csv::<T>(b, d).and_then(|r| compare_rows(r, &want))),
        ),
        Fmt::Arrow => (
            Box::new(move |f| save_arrow(&arr, f).map_err(|e| e.to_string())),
            Box::new(move |b| parse_arrow(b, d).and_then(|r| compare_rows(r, &want))),
        ),
        _ => (
            Box::new(move |f| save_parquet(&arr, f).map_err(|e| e.to_string())),
            Box::new(move |b| parse_parquet(b, d, "chain", "observation").and_then(|r| compare_rows(r, &want))),
        ),
    };
    SaveCase { fmt, cells, save, check, desc: format!("{fmt:?}<{}> shape {shape:?} layout {layout}", T::NAME), may_refuse: false }
}

/// usize is Display but not Into<f64>: CSV only
fn make_csv_usize_case(shape: [usize; 3], g: &mut Gen, specials: bool, layout: u64) -> SaveCase {
    let n = shape[0] * shape[1] * shape[2];
    let data: Vec<usize> = (0..n).map(|i| usize::gen(g, specials, i as u64)).collect();
    let arr = relayout(Array3::from_shape_vec((shape[0], shape[1], shape[2]), data.clone()).unwrap(), layout);
    let d = shape[2];
    // compare as exact integers via u64 strings: widen through u64 -> f64 loses bits, so check text
    let want_txt: BTreeMap<(u32, u32), Vec<usize>> = {
        let mut m = BTreeMap::new();
        for i in 0..shape[0] {
            for j in 0..shape[1] {
                m.insert((i as u32, j as u32), (0..d).map(|k| data[(i * shape[1] + j) * d + k]).collect());
            }
        }
        m
    };
    let cells = Cells { shape, vals: data.iter().map(|x| *x as f64).collect() };
    SaveCase {
        fmt: Fmt::Csv,
        cells,
        save: Box::new(move |f| save_csv(&arr, f).map_err(|e| e.to_string())),
        check: Box::new(move |b| {
            let mut rdr = csv::ReaderBuilder::new().has_headers(true).from_reader(b);
            let hdr: Vec<String> = rdr.headers().map_err(|e| e.to_string())?.iter().map(|s| s.to_string()).collect();
            let mut wh = vec!["chain".to_string(), "observation".to_string()];
            wh.extend((0..d).map(|i| format!("dim_{i}")));
            if hdr != wh {
                return Err(format!("header {hdr:?}"));
            }
            let mut n = 0;
            for rec in rdr.records() {
                let rec = rec.map_err(|e| e.to_string())?;
                let key: (u32, u32) = (rec[0].parse().map_err(|_| "label")?, rec[1].parse().map_err(|_| "label")?);
                let w = want_txt.get(&key).ok_or("unexpected label")?;
                for k in 0..d {
                    if rec[2 + k].parse::<usize>().ok() != Some(w[k]) {
                        return Err(format!("value {:?} != {}", &rec[2 + k], w[k]));
                    }
                }
                n += 1;
            }
            if n != want_txt.len() {
                return Err(format!("{n} rows, expected {}", want_txt.len()));
            }
            Ok(())
        }),
        desc: format!("Csv<usize> shape {shape:?}"),
        may_refuse: false,
    }
}

fn make_tensor_case(fmt: Fmt, shape: [usize; 3], g: &mut Gen, specials: bool, f64_backend: bool) -> SaveCase {
    let n = shape[0] * shape[1] * shape[2];
    let d = shape[2];
    if f64_backend && fmt == Fmt::ParquetTensor {
        let data: Vec<f64> = (0..n).map(|i| f64::gen(g, specials, i as u64)).collect();
        let cells = Cells { shape, vals: data.clone() };
        let want = expected_rows(&cells, true);
        let t = Tensor::<NdArray<f64>, 3>::from_data(TensorData::new(data, shape), &Default::default());
        return SaveCase {
            fmt,
            cells,
            save: Box::new(move |f| save_parquet_tensor::<NdArray<f64>, _, f64>(&t, f).map_err(|e| e.to_string())),
            check: Box::new(move |b| parse_parquet(b, d, "observation", "chain").and_then(|r| compare_rows(r, &want))),
            desc: format!("ParquetTensor<NdArray<f64>> shape {shape:?}"),
            may_refuse: false,
        };
    }
    if f64_backend && fmt == Fmt::CsvTensor {
        // the CSV tensor writer is f32-only: on an f64 backend it may refuse (Err), but if it reports
        // success the file has to hold the stored f64 values
        let data: Vec<f64> = (0..n).map(|i| f64::gen(g, specials, i as u64)).collect();
        let cells = Cells { shape, vals: data.clone() };
        let want = expected_rows(&cells, false);
        let t = Tensor::<NdArray<f64>, 3>::from_data(TensorData::new(data, shape), &Default::default());
        return SaveCase {
            fmt,
            cells,
            save: Box::new(move |f| save_csv_tensor(t.clone(), f).map_err(|e| e.to_string())),
            check: Box::new(move |b| parse_csv::<f64>(b, d).and_then(|r| compare_rows(r, &want))),
            desc: format!("CsvTensor<NdArray<f64>> shape {shape:?}"),
            may_refuse: true,
        };
    }
    let data: Vec<f32> = (0..n).map(|i| f32::gen(g, specials, i as u64)).collect();
    let cells = Cells { shape, vals: data.iter().map(|x| *x as f64).collect() };
    let t = Tensor::<NdArray<f32>, 3>::from_data(TensorData::new(data, shape), &Default::default());
    match fmt {
        Fmt::CsvTensor => {
            let want = expected_rows(&cells, false);
            SaveCase {
                fmt,
                cells,
                save: Box::new(move |f| save_csv_tensor(t.clone(), f).map_err(|e| e.to_string())),
                check: Box::new(move |b| parse_csv::<f32>(b, d).and_then(|r| compare_rows(r, &want))),
                desc: format!("CsvTensor<NdArray<f32>> shape {shape:?}"),
                may_refuse: false,
            }
        }
        _ => {
            let want = expected_rows(&cells, true);
            SaveCase {
                fmt: Fmt::ParquetTensor,
                cells,
                save: Box::new(move |f| save_parquet_tensor::<NdArray<f32>, _, f32>(&t, f).map_err(|e| e.to_string())),
                check: Box::new(move |b| parse_parquet(b, d, "observation", "chain").and_then(|r| compare_rows(r, &want))),
                desc: format!("ParquetTensor<NdArray<f32>> shape {shape:?}"),
                may_refuse: false,
            }
        }
    }
}

fn build_case(p: &Value) -> SaveCase {
    let mut g = Gen::new(pu(p, "gseed"));
    let shape = [pus(p, "s0"), pus(p, "s1"), pus(p, "s2")];
    let specials = pb(p, "specials");
    let layout = p.get("layout").and_then(|v| v.as_u64()).unwrap_or(0);
    match (ps(p, "fmt"), ps(p, "elt")) {
        ("csv", "f64") => make_array_case::<f64>(Fmt::Csv, shape, &mut g, specials, layout),
        ("csv", "f32") => make_array_case::<f32>(Fmt::Csv, shape, &mut g, specials, layout),
        ("csv", "i32") => make_array_case::<i32>(Fmt::Csv, shape, &mut g, specials, layout),
        ("csv", _) => make_csv_usize_case(shape, &mut g, specials, layout),
        ("arrow", "f64") => make_array_case::<f64>(Fmt::Arrow, shape, &mut g, specials, layout),
        ("arrow", "f32") => make_array_case::<f32>(Fmt::Arrow, shape, &mut g, specials, layout),
        ("arrow", _) => make_array_case::<i32>(Fmt::Arrow, shape, &mut g, specials, layout),
        ("parquet", "f64") => make_array_case::<f64>(Fmt::Parquet, shape, &mut g, specials, layout),
        ("parquet", "f32") => make_array_case::<f32>(Fmt::Parquet, shape, &mut g, specials, layout),
        ("parquet", _) => make_array_case::<i32>(Fmt::Parquet, shape, &mut g, specials, layout),
        ("csv_tensor", "f64") => make_tensor_case(Fmt::CsvTensor, shape, &mut g, specials, true),
        ("csv_tensor", _) => make_tensor_case(Fmt::CsvTensor, shape, &mut g, specials, false),
        ("parquet_tensor", "f64") => make_tensor_case(Fmt::ParquetTensor, shape, &mut g, specials, true),
        (_, _) => make_tensor_case(Fmt::ParquetTensor, shape, &mut g, specials, false),
    }
}

/// one save on a fresh simulated disk; returns (result or panic message, bytes, stats)
fn one_save(case: &SaveCase, plan: FaultPlan) -> (Result<Result<(), String>, String>, Option<Vec<u8>>, mcmc_sim::fs::DiskStats) {
    let disk = sfs::install(plan);
    let _ = mcmc_sim::sim::take_last_panic();
    let r = std::panic::catch_unwind(std::panic::AssertUnwindSafe(|| (case.save)("/sim/out.dat")));
    sfs::uninstall();
    let d = disk.lock().unwrap();
    let bytes = d.files.get("/sim/out.dat").cloned();
    let stats = d.stats.clone();
    let res = match r {
        Ok(x) => Ok(x),
        Err(_) => Err(mcmc_sim::sim::take_last_panic().unwrap_or_else(|| "panic".into())),
    };
    (res, bytes, stats)
}

fn judge(o: &mut Outcome, case: &SaveCase, fault: &str, res: Result<Result<(), String>, String>, bytes: Option<Vec<u8>>, stats: &mcmc_sim::fs::DiskStats) {
    let site = format!("{:?}", case.fmt);
    for (k, v) in &stats.fired {
        o.count(&format!("fault_{k}"), *v);
    }
    match res {
        Err(m) => {
            let loc = m.rsplit(" @ ").next().unwrap_or("").to_string();
            o.violate("panic", &format!("save:{site}:panic@{loc}"), format!("{} with fault [{fault}] panicked: {m}", case.desc));
        }
        Ok(Err(e)) => {
            if fault == "none" && case.may_refuse {
                o.count("probe_refused_input_err", 1);
            } else if fault == "none" {
                o.violate("faultfree_err", &format!("save:{site}:Err-without-fault"), format!("{} failed on a healthy disk: {e}", case.desc));
            } else {
                o.count("probe_err_after_fault", 1);
            }
        }
        Ok(Ok(())) => {
            let check = match &bytes {
                None => Err("no file was created".to_string()),
                Some(b) => (case.check)(b),
            };
            match check {
                Ok(()) => {
                    if fault != "none" {
                        o.count("probe_ok_with_complete_file_after_absorbed_fault", 1);
                    }
                }
                Err(why) => {
                    if fault == "none" {
                        o.violate("roundtrip", &format!("save:{site}:round-trip"), format!("{}: reported success but reading back gives: {why}", case.desc));
                    } else {
                        o.violate("partial_success", &format!("save:{site}:Ok-with-incomplete-file"), format!("{} with fault [{fault}] (fired {:?}, lost bytes: {}) reported success but the file is incomplete: {why}", case.desc, stats.fired, stats.lost_bytes));
                    }
                }
            }
        }
    }
}

struct IoFaults;
const FMTS: &[(&str, &[&str])] = &[
    ("csv", &["f64", "f32", "i32", "usize"]),
    ("arrow", &["f64", "f32", "i32"]),
    ("parquet", &["f64", "f32", "i32"]),
    ("csv_tensor", &["f32", "f32", "f64"]),
    ("parquet_tensor", &["f32", "f64"]),
];

impl Scenario for IoFaults {
    fn name(&self) -> &'static str {
        "io_faults"
    }
    fn runs(&self, tier: Tier) -> u64 {
        tier.pick(13_000, 300_000)
    }
    fn generate(&self, g: &mut Gen, _t: Tier, idx: u64) -> Value {
        let (fmt, elts) = FMTS[(idx % FMTS.len() as u64) as usize];
        let elt = *g.pick(elts);
        let tensor = fmt.ends_with("tensor");
        // shapes 0..6 x 0..40 x 0..8 incl. empty axes (array and tensor entry points alike)
        let _ = tensor;
        let mut s = [g.usize(0, 6), g.usize(0, 40), g.usize(0, 8)];
        if g.bool(1, 6) {
            s[g.usize(0, 2)] = 0;
        }
        if g.bool(1, 10) {
            // large enough for several flushes of an 8 KiB buffer
            s = [g.usize(3, 6), g.usize(30, 40), g.usize(5, 8)];
        }
        json!({"fmt": fmt, "elt": elt, "s0": s[0], "s1": s[1], "s2": s[2], "specials": g.bool(1, 2), "gseed": g.u64(), "fseed": g.u64(), "max_points": 48, "layout": if tensor || g.bool(1, 2) { 0 } else { g.range(1, 4) }})
    }
    fn execute(&self, p: &Value, ws: bool) -> Outcome {
        let mut o = Outcome::default();
        let case = build_case(p);
        let mut g = Gen::new(pu(p, "fseed"));
        // 1) fault-free run: the round trip itself, and the number of write / flush calls of this input
        let (res, bytes, stats) = one_save(&case, FaultPlan::default());
        let (w, f) = (stats.write_calls, stats.flush_calls);
        let nbytes = stats.bytes;
        judge(&mut o, &case, "none", res, bytes, &stats);
        o.work += 1;
        o.count("probe_empty_axis", (case.cells.shape.iter().any(|x| *x == 0)) as u64);
        o.count("probe_multi_write_file", (w >= 3) as u64);
        // 2) faults: every write-call index x every kind when the file has few write calls, sampled otherwise
        let kinds = ["transient", "sticky_nospace", "eio", "short", "interrupted", "zero"];
        let maxp = pu(p, "max_points");
        let idxs: Vec<u64> = if w <= maxp { (0..w).collect() } else { (0..maxp).map(|_| g.range(0, w - 1)).collect() };
        let only = p.get("only_fault").and_then(|v| v.as_str()).map(|s| s.to_string());
        for k in idxs.iter().copied() {
            for kind in kinds {
                let tag = format!("write#{k}:{kind}");
                if only.as_ref().map(|x| *x != tag).unwrap_or(false) {
                    continue;
                }
                let wf = match kind {
                    "transient" => WriteFault::Transient,
                    "sticky_nospace" => WriteFault::StickyNoSpace,
                    "eio" => WriteFault::HardEio,
                    "short" => WriteFault::Short(g.usize(1, 64)),
                    "interrupted" => WriteFault::Interrupted,
                    _ => WriteFault::Zero,
                };
                let mut plan = FaultPlan::default();
                plan.writes.insert(k, wf);
                let (res, bytes, stats) = one_save(&case, plan);
                judge(&mut o, &case, &tag, res, bytes, &stats);
                o.work += 1;
            }
        }
        for fk in 0..f.min(8) {
            let tag = format!("flush#{fk}");
            if only.as_ref().map(|x| *x != tag).unwrap_or(false) {
                continue;
            }
            let plan = FaultPlan { flush_fail: Some(fk), ..FaultPlan::default() };
            let (res, bytes, stats) = one_save(&case, plan);
            judge(&mut o, &case, &tag, res, bytes, &stats);
            o.work += 1;
        }
        for (cf, name) in [(CreateFault::NotFound, "create:not_found"), (CreateFault::PermissionDenied, "create:permission_denied"), (CreateFault::StorageFull, "create:storage_full"), (CreateFault::IsADirectory, "create:is_a_directory")] {
            if only.as_ref().map(|x| x != name).unwrap_or(false) {
                continue;
            }
            let plan = FaultPlan { create: Some(cf), ..FaultPlan::default() };
            let (res, bytes, stats) = one_save(&case, plan);
            judge(&mut o, &case, name, res, bytes, &stats);
            o.work += 1;
        }
        o.hash = str_hash(&p.to_string());
        o.nontrivial = w >= 1;
        if ws {
            o.sample = Some(json!({"case": case.desc, "write_calls": w, "flush_calls": f, "bytes": nbytes, "fault_points": idxs.len() * kinds.len() + f.min(8) as usize + 4}));
        }
        o
    }
    fn shrink(&self, p: &Value) -> Vec<Value> {
        let mut out = vec![];
        let lo = 0;
        shrink_int(p, "s0", lo, &mut out);
        shrink_int(p, "s1", lo, &mut out);
        shrink_int(p, "s2", lo, &mut out);
        if pb(p, "specials") {
            out.push(with(p, "specials", json!(false)));
        }
        if p.get("layout").and_then(|v| v.as_u64()).unwrap_or(0) != 0 {
            out.push(with(p, "layout", json!(0)));
        }
        out
    }
    fn rule(&self) -> &'static str {
        "one run = one input (format x element type visited in turn by run index; shape 0..6 x 0..40 x 0..8 incl. empty axes; special values and arbitrary bit patterns; array inputs in C / Fortran / axis-permuted / inverted-axis / reversed-axes memory layout) saved fault-free and then once per (write-call index, fault kind) for EVERY write call of that file (sampled above 48 calls), every flush call and every create error; non-trivial = the file has >= 1 write call; distinct = input hash"
    }
    fn components(&self) -> Value {
        json!({"real": ["save_csv", "save_csv_tensor", "save_arrow", "save_parquet", "save_parquet_tensor", "csv / arrow-ipc / parquet writers and readers"], "stub": ["disk = in-memory file with fault plan"]})
    }
}

// ---- real disk: unwritable paths (dual mode of the File seam) ----------------------------------
struct RealDisk;
impl Scenario for RealDisk {
    fn name(&self) -> &'static str {
        "real_disk_paths"
    }
    fn runs(&self, tier: Tier) -> u64 {
        tier.pick(60, 300)
    }
    fn generate(&self, g: &mut Gen, _t: Tier, idx: u64) -> Value {
        let (fmt, elts) = FMTS[(idx % FMTS.len() as u64) as usize];
        json!({"fmt": fmt, "elt": *g.pick(elts), "s0": g.usize(1, 3), "s1": g.usize(1, 5), "s2": g.usize(1, 3), "specials": false, "gseed": g.u64(), "path_kind": *g.pick(&["missing_dir", "is_dir", "ok", "dev_full", "name_too_long"]),
               // the file name: short ASCII, long ASCII, or non-ASCII (2-, 3-, 4-byte characters at every byte alignment)
               "name_style": *g.pick(&["short", "short", "long_ascii", "unicode", "unicode"]), "name_len": g.usize(8, 230), "name_shift": g.usize(0, 3), "name_char": g.usize(0, 2)})
    }
    fn execute(&self, p: &Value, ws: bool) -> Outcome {
        let mut o = Outcome::default();
        let case = build_case(p);
        let base = verif_dir().join("target").join("tmp-io").join(format!("{}-{:x}", std::process::id(), pu(p, "gseed")));
        let _ = std::fs::create_dir_all(&base);
        let kind = ps(p, "path_kind");
        // file name of about `name_len` bytes (<= 255, the usual limit of one path component)
        let style = p.get("name_style").and_then(|v| v.as_str()).unwrap_or("short");
        let name_len = p.get("name_len").and_then(|v| v.as_u64()).unwrap_or(8) as usize;
        let shift = p.get("name_shift").and_then(|v| v.as_u64()).unwrap_or(0) as usize;
        let ch = ["\u{e9}", "\u{20ac}", "\u{1f600}"][p.get("name_char").and_then(|v| v.as_u64()).unwrap_or(0) as usize % 3];
        let mut name = match style {
            "long_ascii" => "a".repeat(name_len.min(240)),
            "unicode" => {
                let mut n = "x".repeat(shift);
                while n.len() + ch.len() <= name_len.min(240) {
                    n.push_str(ch);
                }
                n
            }
            _ => "out".to_string(),
        };
        name.push_str(".dat");
        let path = match kind {
            "missing_dir" => base.join("no/such/dir").join(&name),
            "is_dir" => base.clone(),
            "dev_full" => std::path::PathBuf::from("/dev/full"),
            // one component above the file system's limit: ENAMETOOLONG
            "name_too_long" => base.join(format!("{}{}{}", name, "z".repeat(100), ch.repeat(100))),
            _ => base.join(&name),
        };
        o.count("probe_non_ascii_path", (!path.to_str().unwrap_or("").is_ascii()) as u64);
        o.count("probe_path_longer_than_64_bytes", (path.to_str().unwrap_or("").len() > 64) as u64);
        sfs::uninstall();
        let _ = mcmc_sim::sim::take_last_panic();
        let r = std::panic::catch_unwind(std::panic::AssertUnwindSafe(|| (case.save)(path.to_str().unwrap())));
        let site = format!("{:?}", case.fmt);
        match r {
            Err(_) => o.violate("panic", &format!("save:{site}:panic-real-disk"), format!("{} to {kind} path panicked: {:?}", case.desc, mcmc_sim::sim::take_last_panic())),
            Ok(Ok(())) => {
                if kind == "ok" {
                    match std::fs::read(&path).map_err(|e| e.to_string()).and_then(|b| (case.check)(&b)) {
                        Ok(()) => {}
                        Err(why) => o.violate("roundtrip", &format!("save:{site}:round-trip"), format!("{} on the real disk: {why}", case.desc)),
                    }
                } else {
                    o.violate("partial_success", &format!("save:{site}:Ok-on-unwritable-path"), format!("{} reported success for an unwritable path ({kind})", case.desc));
                }
            }
            Ok(Err(e)) => {
                if kind == "ok" && !case.may_refuse {
                    o.violate("faultfree_err", &format!("save:{site}:Err-without-fault"), format!("{} failed on the real disk: {e}", case.desc));
                }
            }
        }
        let _ = std::fs::remove_dir_all(&base);
        o.count(&format!("fault_real_path_{kind}"), 1);
        o.work = 1;
        o.hash = str_hash(&p.to_string());
        o.nontrivial = true;
        if ws {
            o.sample = Some(json!({"case": case.desc, "path_kind": kind}));
        }
        o
    }
    fn rule(&self) -> &'static str {
        "real file system (the File seam's pass-through mode): missing directory, a directory as the path, /dev/full, a component above NAME_MAX, and a writable path with read-back; file names short, long (up to 244 bytes) and non-ASCII (2-/3-/4-byte characters at every byte alignment); distinct = input hash"
    }
    fn components(&self) -> Value {
        json!({"real": ["save functions", "std::fs", "writers/readers"], "stub": []})
    }
}
