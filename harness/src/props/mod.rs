//! Property definitions: one module per property, each a list of scenarios.

use crate::core::*;
use mcmc_sim::sim::{ClockProfile, Sched, SimConfig};
use serde_json::{json, Value};

pub mod c01;
pub mod c02;
pub mod c03;
pub mod c04;
pub mod c05;
pub mod c06;
pub mod c07;
pub mod c08;
pub mod c09;
pub mod c10;
pub mod c13;
pub mod c14;
pub mod c16;
pub mod c17;

pub fn all() -> Vec<PropertyDef> {
    vec![c01::def(), c02::def(), c03::def(), c04::def(), c05::def(), c06::def(), c07::def(), c08::def(), c09::def(), c10::def(), c13::def(), c14::def(), c16::def(), c17::def()]
}

// ---- shared: simulation parameters <-> JSON ---------------------------------------------------

/// Generate scheduler + clock parameters. `n_tasks` is a hint for the per-task cost table.
pub fn gen_sim(g: &mut Gen, n_tasks: usize, clock_regimes: bool) -> Value {
    let sched = match g.range(0, 9) {
        0..=5 => "random",
        6..=8 => "pct",
        _ => "sticky",
    };
    let depth = g.range(1, 4);
    let workers = *g.pick(&[1u64, 1, 2, 2, 3, 4, 5, 8, 16]);
    let mut base: Vec<u64> = vec![];
    let mut default_ns = 1_000u64;
    let mut jitter = g.bool(1, 2);
    let mut stall = Value::Null;
    let regime;
    if clock_regimes {
        regime = match g.range(0, 6) {
            0 => "fast_clock",     // >= 1 s per step: a message per step
            1 => "frozen",         // zero cost: only the final message
            2 => "mixed",          // six orders of magnitude between tasks
            3 => "straggler",      // one slow task
            4 => "reversed",       // cost decreasing with task id
            5 => "stall",          // one stall of hours
            _ => "uniform",
        };
        match regime {
            "fast_clock" => default_ns = g.range(1_000_000_000, 10_000_000_000),
            "frozen" => {
                default_ns = 0;
                jitter = false;
            }
            "mixed" => {
                for _ in 0..n_tasks.max(1) {
                    base.push(g.log_uniform(1e3, 1e10) as u64);
                }
            }
            "straggler" => {
                let slow = g.usize(0, n_tasks.max(1) - 1);
                for t in 0..n_tasks.max(1) {
                    base.push(if t == slow { 5_000_000_000 } else { 1_000_000 });
                }
            }
            "reversed" => {
                for t in 0..n_tasks.max(1) {
                    base.push(1_000u64 << (2 * (n_tasks - t).min(12)));
                }
            }
            "stall" => {
                default_ns = 10_000_000;
                stall = json!([g.range(0, n_tasks.max(1) as u64 + 1), g.range(0, 20), g.range(1, 4) * 1_800_000_000_000u64]);
            }
            _ => default_ns = g.log_uniform(1e3, 1e9) as u64,
        }
    } else {
        regime = "plain";
    }
    json!({
        "sched": sched, "sseed": g.u64(), "depth": depth, "workers": workers,
        "clock": {"regime": regime, "seed": g.u64(), "base_ns": base, "default_ns": default_ns, "jitter": jitter, "stall": stall},
        "max_steps": 2_000_000u64,
    })
}

pub fn sim_cfg(v: &Value) -> SimConfig {
    let seed = pu(v, "sseed");
    let sched = if let Some(tasks) = v.get("replay_tasks").and_then(|t| t.as_array()) {
        Sched::Replay { seed, tasks: tasks.iter().map(|t| t.as_u64().unwrap_or(0) as u32).collect() }
    } else {
        match ps(v, "sched") {
            "random" => Sched::Random { seed },
            "pct" => Sched::Pct { seed, depth: pus(v, "depth") },
            _ => Sched::Sticky,
        }
    };
    let c = &v["clock"];
    let stall = c["stall"].as_array().map(|a| (a[0].as_u64().unwrap() as u32, a[1].as_u64().unwrap(), a[2].as_u64().unwrap()));
    SimConfig {
        sched,
        max_steps: pus(v, "max_steps"),
        stack_size: 8 << 20,
        workers: pus(v, "workers"),
        clock: ClockProfile {
            seed: pu(c, "seed"),
            base_ns: c["base_ns"].as_array().map(|a| a.iter().map(|x| x.as_u64().unwrap()).collect()).unwrap_or_default(),
            default_ns: pu(c, "default_ns"),
            jitter: pb(c, "jitter"),
            stall,
        },
        keep_events: 48,
    }
}

/// shrink candidates for the simulation parameters (under key "sim" of `params`)
pub fn shrink_sim(params: &Value, out: &mut Vec<Value>) {
    let Some(sim) = params.get("sim") else { return };
    if sim.get("replay_tasks").is_some() {
        return;
    }
    let mut cands = vec![];
    if ps(sim, "sched") != "sticky" {
        cands.push(with(sim, "sched", json!("sticky")));
    }
    if pu(sim, "workers") > 1 {
        cands.push(with(sim, "workers", json!(1)));
        cands.push(with(sim, "workers", json!(2)));
    }
    let c = &sim["clock"];
    if !c["stall"].is_null() {
        cands.push(with(sim, "clock", with(c, "stall", Value::Null)));
    }
    if pb(c, "jitter") {
        cands.push(with(sim, "clock", with(c, "jitter", json!(false))));
    }
    if c["base_ns"].as_array().map(|a| !a.is_empty()).unwrap_or(false) {
        cands.push(with(sim, "clock", with(c, "base_ns", json!([]))));
    }
    for cand in cands {
        out.push(with(params, "sim", cand));
    }
}

pub fn report_json(r: &mcmc_sim::sim::SimReport) -> Value {
    json!({
        "failure": r.failure.as_ref().map(|f| format!("{:?}: {}", f.kind, f.msg)),
        "scheduling_decisions": r.schedule.len(),
        "context_switches": r.context_switches,
        "schedule_head": r.schedule.iter().take(80).collect::<Vec<_>>(),
        "sim_time_s": r.sim_time_ns as f64 / 1e9,
        "n_events": r.n_events,
        "tasks": r.n_tasks,
        "events_head": r.events.iter().take(24).map(|e| format!("t{}:{}({})@{}ns", e.task, e.kind, e.a, e.t_ns)).collect::<Vec<_>>(),
        "counters": r.counters,
    })
}
