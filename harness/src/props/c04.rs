//! C04 — NUTS step size: dual averaging in warm-up, frozen afterwards.

use super::*;
use crate::gtargets::*;
use crate::props::c03::{parse_transitions, LibTransition};
use crate::zoo::{BF32, BF64};
use burn::tensor::backend::AutodiffBackend;
use burn::tensor::Element;
use mini_mcmc::nuts::NUTSChain;
use num_traits::Float;

pub fn def() -> PropertyDef {
    PropertyDef {
        id: "C04",
        level: "exploration",
        scenarios: vec![Box::new(DualAveraging), Box::new(AdaptationQuality)],
        assumptions: vec![
            "the per-transition acceptance statistic alpha/n_alpha is the traced one (C03 judges it); the adaptation state is read from the end-of-transition trace and the verification accessor",
            "eps0 is judged by the defining property of the doubling/halving heuristic (the one-leapfrog acceptance probability crosses 1/2 between eps0 and a neighbour within two doublings; eps0 a power of two), not by mirroring one variant of it",
        ],
    }
}

/// one-leapfrog acceptance probability of the reference integrator from (x, p) with step eps
fn accept_prob(t: &GTarget, x: &[f64], p: &[f64], eps: f64) -> f64 {
    let (x1, p1) = ref_leapfrog(t, x, p, eps, 1);
    let d = hamiltonian(t, x, p) - hamiltonian(t, &x1, &p1);
    if d.is_nan() {
        return f64::NAN;
    }
    d.exp().min(1.0)
}

fn da_run<T, B>(params: &Value, ws: bool, tol: f64, name: &'static str) -> Outcome
where
    T: Float + burn::tensor::ElementConversion + Element + rand_distr::uniform::SampleUniform + num_traits::FromPrimitive,
    B: AutodiffBackend,
    rand_distr::StandardNormal: rand::distr::Distribution<T>,
    rand_distr::StandardUniform: rand_distr::Distribution<T>,
    rand_distr::Exp1: rand_distr::Distribution<T>,
{
    let mut o = Outcome::default();
    let mut g = Gen::new(pu(params, "gseed"));
    let mut scale_mult = 1.0f64;
    let mut target = match ps(params, "family") {
        "halfline" => {
            let mut t = GTarget::new(GKind::HalfLineLog, g.usize(1, 2));
            t.c = 0.0;
            t
        }
        "box" => {
            let mut t = GTarget::new(GKind::Box, g.usize(1, 3));
            t.c = g.f64_in(0.8, 2.5);
            t
        }
        "scaled" => {
            // an exact rescaling of a unit-scale Gaussian by a power of two s = 2^k, k in -20..20:
            // the start-up heuristic has to follow the scale (eps0 ~ s)
            let d = g.usize(1, 3);
            let mut t = GTarget::gauss(&mut g, d, 4.0);
            let k = g.range(0, 40) as i32 - 20;
            let sc = 2f64.powi(k);
            for a in t.a.iter_mut() {
                *a /= sc * sc;
            }
            for m in t.mu.iter_mut() {
                *m *= sc;
            }
            scale_mult = sc;
            t
        }
        _ => gen_smooth(&mut g, true),
    };
    if params.get("offset").is_some() {
        target.offset = pf(params, "offset");
        o.count("probe_log_density_offset_runs", (target.offset != 0.0) as u64);
    }
    target.eval_budget = 40_000;
    let d = target.d;
    let smooth = ps(params, "family") == "smooth" || ps(params, "family") == "scaled";
    let scale0 = pf(params, "start_scale") * scale_mult;
    o.count("probe_target_scale_below_2^-12_or_above_2^10", (scale_mult < 2f64.powi(-12) || scale_mult > 1024.0) as u64);
    let init64: Vec<f64> = (0..d)
        .map(|_| match target.kind {
            GKind::HalfLineLog => g.f64_in(0.3, 3.0),
            GKind::Box => g.f64_in(-0.7, 0.7) * target.c,
            _ => g.normal() * scale0,
        })
        .collect();
    let init: Vec<T> = init64.iter().map(|x| T::from(*x).unwrap()).collect();
    let init_used: Vec<f64> = init.iter().map(|x| num_traits::ToPrimitive::to_f64(x).unwrap()).collect();
    let delta = pf(params, "accept");
    let delta_t = T::from(delta).unwrap();
    let delta_used = num_traits::ToPrimitive::to_f64(&delta_t).unwrap();
    let calls: Vec<(usize, usize)> = params["calls"].as_array().unwrap().iter().map(|c| (c[0].as_u64().unwrap() as usize, c[1].as_u64().unwrap() as usize)).collect();
    let mut chain = NUTSChain::<T, B, GTarget>::new(target.clone(), init, delta_t).set_seed(pu(params, "seed"));
    let site = format!("NUTS::adapt[{name}]");
    o.hash = str_hash(&params.to_string());
    // model state
    let (gamma, t0, kappa) = (0.05f64, 10.0f64, 0.75f64);
    let mut h_bar = 0.0f64;
    let mut ln_eps_bar = 0.0f64; // epsilon_bar starts at 1
    let mut m_total = 0usize;
    let mut prev: Option<(f64, f64, bool)> = None; // (eps, eps_bar, was a warm-up transition) after the previous transition
    let mut samples = vec![];
    let reseed = params.get("reseed").and_then(|v| v.as_bool()).unwrap_or(false);
    for (ci, (ncol, ndis)) in calls.iter().enumerate() {
        if reseed && ci > 0 {
            // the caller re-seeds the chain between two runs: a new random stream, the same adaptation state
            chain = chain.set_seed(mix(pu(params, "seed"), ci as u64));
            o.count("probe_reseeded_between_calls", 1);
        }
        mcmc_sim::trace::start();
        let _ = mcmc_sim::sim::take_last_panic();
        let r = std::panic::catch_unwind(std::panic::AssertUnwindSafe(|| chain.run(*ncol, *ndis)));
        let ev = mcmc_sim::trace::stop();
        if r.is_err() {
            let m = mcmc_sim::sim::take_last_panic().unwrap_or_default();
            if m.contains("VERIF-EVAL-BUDGET") {
                o.count("skipped_evaluation_budget", 1);
                return o;
            }
            let loc = m.rsplit(" @ ").next().unwrap_or("").to_string();
            o.violate("panic", &format!("{site}:panic@{loc}"), m);
            return o;
        }
        // start of the call: initial momentum, eps0 (first call only), mu
        let init_mom = ev.iter().find(|e| e.role == "nuts_init_mom").map(|e| e.vals.clone()).unwrap_or_default();
        let eps0 = ev.iter().find(|e| e.role == "nuts_eps0").map(|e| e.vals[0]);
        let Some(init_end) = ev.iter().find(|e| e.role == "nuts_init_end").map(|e| e.vals.clone()) else {
            o.harness_error = Some("no nuts_init_end event (hook H4 missing?)".into());
            return o;
        };
        let (eps_start, mu) = (init_end[0], init_end[1]);
        if ci == 0 {
            match eps0 {
                None => {
                    o.violate("eps0", &format!("{site}:no-initial-step-size-search"), "the first run did not search for an initial step size".into());
                    return o;
                }
                Some(e0) => {
                    if !(e0 > 0.0 && e0.is_finite()) {
                        o.violate("eps_not_positive_finite", &format!("{site}:eps0-not-positive-finite"), format!("initial step size {e0}"));
                        return o;
                    }
                    if smooth {
                        // power of two, and the one-leapfrog acceptance probability crosses 1/2 near it
                        let l2 = e0.log2();
                        if (l2 - l2.round()).abs() > 1e-6 {
                            o.violate("eps0", &format!("{site}:eps0-not-a-power-of-two"), format!("initial step size {e0}"));
                            return o;
                        }
                        let p = |e: f64| accept_prob(&target, &init_used, &init_mom, e);
                        let (p1, ph, pq, p2, p4) = (p(e0), p(e0 / 2.0), p(e0 / 4.0), p(2.0 * e0), p(4.0 * e0));
                        let margin = if tol > 1e-6 { 0.02 } else { 1e-6 };
                        let near = |x: f64| (x - 0.5).abs() < margin || x.is_nan();
                        if [p1, ph, pq, p2, p4].iter().any(|x| near(*x)) {
                            o.count("ambiguous_not_judged", 1);
                        } else {
                            let crossing_down = p1 <= 0.5 && (ph > 0.5 || pq > 0.5); // found by doubling
                            let crossing_up = p1 >= 0.5 && (p2 < 0.5 || p4 < 0.5); // found by halving
                            if !(crossing_down || crossing_up) {
                                o.violate("eps0", &format!("{site}:eps0-not-at-the-half-acceptance-crossing"), format!("eps0 = {e0}: one-leapfrog acceptance probabilities p(eps0/4..4 eps0) = {pq:.4}, {ph:.4}, {p1:.4}, {p2:.4}, {p4:.4} do not cross 1/2 at eps0 [{:?} d={d}, x={init_used:?}, p={init_mom:?}]", target.kind));
                                return o;
                            }
                            o.count("probe_eps0_judged", 1);
                        }
                    }
                }
            }
        } else if eps0.is_some() {
            o.violate("eps0", &format!("{site}:initial-step-size-search-repeated"), format!("call {ci} searched for an initial step size again"));
            return o;
        }
        if !((mu - (10.0 * eps_start).ln()).abs() <= tol * 10.0 * (mu.abs() + 1.0)) {
            o.violate("mu", &format!("{site}:shrinkage-point"), format!("call {ci}: mu = {mu} but ln(10 * eps) = {} (eps = {eps_start})", (10.0 * eps_start).ln()));
            return o;
        }
        if let Some((pe, _, _)) = prev {
            if pe.to_bits() != eps_start.to_bits() {
                o.violate("eps_between_calls", &format!("{site}:step-size-changed-between-calls"), format!("call {ci} starts with step size {eps_start}, the previous call ended with {pe}"));
                return o;
            }
        }
        let trs: Vec<LibTransition> = parse_transitions(&ev);
        for lt in trs.iter().filter(|t| t.complete) {
            m_total += 1;
            o.work += 1;
            if lt.m != m_total {
                o.violate("counter", &format!("{site}:warm-up-counter"), format!("call {ci}: transition counter m = {} but {} transitions have been performed on this chain", lt.m, m_total));
                return o;
            }
            // the step size in force during the transition is the one left by the previous one
            let in_force = prev.map(|p| p.0).unwrap_or(eps_start);
            if lt.eps.to_bits() != in_force.to_bits() && !(prev.is_none() && lt.eps.to_bits() == eps_start.to_bits()) {
                o.violate("eps_in_force", &format!("{site}:step-size-in-force"), format!("transition {m_total} used step size {} but {} was in force", lt.eps, in_force));
                return o;
            }
            // "driven by each transition's acceptance statistic": the statistic the library feeds into the
            // recurrence is the one Algorithm 6 assigns to this transition (same draws, f64 reference)
            if lt.alpha.is_finite() {
                match crate::props::c03::reference_statistic(&target, lt, if name == "f32" { f32::EPSILON as f64 } else { f64::EPSILON }) {
                    Some((ra, rn, rtol)) => {
                        o.count("probe_statistic_judged_against_algorithm_6", 1);
                        if (ra - lt.alpha).abs() > rtol {
                            o.violate("statistic", &format!("{site}:acceptance-statistic-driving-adaptation"), format!("transition {m_total}: the library adapts on alpha = {} over {} leaves, Algorithm 6 with the same draws gives {ra} over {rn} (tolerance {rtol:e}) [{:?} d={d}, offset {}, eps {:e}]", lt.alpha, lt.n_alpha, target.kind, target.offset, lt.eps));
                            return o;
                        }
                    }
                    None => o.count("statistic_not_judged_ambiguous", 1),
                }
            }
            let stat = lt.alpha / lt.n_alpha as f64;
            let eta = 1.0 / (m_total as f64 + t0);
            h_bar = (1.0 - eta) * h_bar + eta * (delta_used - stat);
            let warm = m_total <= *ndis;
            let (want_eps, want_bar);
            if warm {
                let ln_eps = mu - (m_total as f64).sqrt() / gamma * h_bar;
                let eta2 = (m_total as f64).powf(-kappa);
                ln_eps_bar = (1.0 - eta2) * ln_eps_bar + eta2 * ln_eps;
                want_eps = ln_eps.exp();
                want_bar = ln_eps_bar.exp();
                o.count("probe_warmup_transitions", 1);
            } else {
                want_bar = ln_eps_bar.exp();
                want_eps = want_bar;
                o.count("probe_frozen_transitions", 1);
            }
            // positive and finite throughout
            if !(lt.eps_new > 0.0 && lt.eps_new.is_finite() && lt.eps_bar > 0.0 && lt.eps_bar.is_finite()) {
                o.violate("eps_not_positive_finite", &format!("{site}:step-size-not-positive-finite"), format!("after transition {m_total} (call {ci}, n_discard {ndis}): step size {} / averaged {} (statistic {stat}) [{:?}]", lt.eps_new, lt.eps_bar, target.kind));
                return o;
            }
            if stat.is_finite() && h_bar.is_finite() {
                let rel = |a: f64, b: f64| (a - b).abs() / b.abs().max(1e-300);
                if (lt.h_bar - h_bar).abs() > tol * (h_bar.abs() + 1.0) * 4.0 {
                    o.violate("h_bar", &format!("{site}:averaged-statistic"), format!("transition {m_total}: H-bar = {} but the recurrence (gamma .05, t0 10) gives {h_bar} (statistic {stat}, target {delta_used})", lt.h_bar));
                    return o;
                }
                // exponentials amplify: tolerance grows with |ln eps|
                let amp = 4.0 * (1.0 + (m_total as f64).sqrt() / gamma * tol.max(1e-15) / tol.max(1e-15)) ;
                let t_eps = tol * amp * (1.0 + want_eps.ln().abs() + (m_total as f64).sqrt() / gamma * (h_bar.abs() + 1.0));
                if warm && (rel(lt.eps_new, want_eps) > t_eps || rel(lt.eps_bar, want_bar) > t_eps) {
                    o.violate("dual_averaging", &format!("{site}:dual-averaging-recurrence"), format!("transition {m_total} (warm-up, n_discard {ndis}): step size {} / averaged {} but the recurrence gives {want_eps} / {want_bar} (mu {mu}, H-bar {h_bar})", lt.eps_new, lt.eps_bar));
                    return o;
                }
                // re-synchronise the model's averaged iterate with the library's value (keeps f32 drift out of later steps)
                if warm {
                    ln_eps_bar = lt.eps_bar.ln();
                }
                h_bar = lt.h_bar;
            } else {
                o.count("not_judged_nonfinite_statistic", 1);
                h_bar = lt.h_bar;
                ln_eps_bar = lt.eps_bar.ln();
            }
            if !warm {
                // frozen: equals the averaged iterate and never changes again
                if lt.eps_new.to_bits() != lt.eps_bar.to_bits() {
                    o.violate("not_frozen", &format!("{site}:post-warm-up-step-size-is-not-the-averaged-iterate"), format!("transition {m_total} (after warm-up of {ndis}): step size {} differs from the averaged iterate {}", lt.eps_new, lt.eps_bar));
                    return o;
                }
                if let Some((pe, pb, prev_warm)) = prev {
                    // the averaged iterate never changes outside warm-up; the step size equals it from the
                    // first post-warm-up transition on (the previous transition may still have been a
                    // warm-up one, possibly of an earlier call)
                    if pb.to_bits() != lt.eps_bar.to_bits() || (!prev_warm && pe.to_bits() != lt.eps_new.to_bits()) {
                        o.violate("not_frozen", &format!("{site}:step-size-changed-after-warm-up"), format!("transition {m_total} (call {ci}, n_discard {ndis}): step size {} / averaged {} changed from {pe} / {pb} after warm-up", lt.eps_new, lt.eps_bar));
                        return o;
                    }
                }
            }
            prev = Some((lt.eps_new, lt.eps_bar, warm));
            if ws && samples.len() < 6 {
                samples.push(json!({"m": m_total, "warm_up": warm, "statistic": stat, "eps": lt.eps_new, "eps_bar": lt.eps_bar}));
            }
        }
        // accessor agrees with the trace
        let st = chain.verif_adapt_state();
        if let Some((pe, pb, _)) = prev {
            if st.0 != m_total || st.2.to_bits() != pe.to_bits() || st.3.to_bits() != pb.to_bits() {
                o.violate("accessor", &format!("{site}:state-after-run"), format!("after call {ci}: accessor (m, eps, eps_bar) = ({}, {}, {}), trace ({m_total}, {pe}, {pb})", st.0, st.2, st.3));
                return o;
            }
        }
    }
    o.count("probe_multi_call_history", (calls.len() >= 2) as u64);
    o.count("probe_later_call_with_warmup_already_passed", (calls.len() >= 2 && calls[1].1 > 0 && calls[1].1 <= calls[0].0 + calls[0].1) as u64);
    o.nontrivial = m_total >= 1;
    if ws {
        o.sample = Some(json!({"target": target.describe(), "backend": name, "requested": delta_used, "calls": calls, "transitions": samples}));
    }
    o
}

struct DualAveraging;
impl Scenario for DualAveraging {
    fn recheckable(&self, p: &Value) -> bool {
        // f32 gradients of the NdArray backend are not repeatable bit for bit (see Scenario::recheckable)
        ps(p, "float") != "f32"
    }
    fn name(&self) -> &'static str {
        "dual_averaging_histories"
    }
    fn runs(&self, tier: Tier) -> u64 {
        tier.pick(900, 40_000)
    }
    fn generate(&self, g: &mut Gen, tier: Tier, _i: u64) -> Value {
        let n_calls = g.usize(1, 4);
        let big = tier == Tier::Thorough && g.bool(1, 50);
        let calls: Vec<Value> = (0..n_calls)
            .map(|_| {
                let nd = if big { g.usize(200, 2000) } else { *g.pick(&[0usize, 0, 1, 2, 3, 5, 8, 13, 20, 40]) };
                json!([g.usize(1, 6), nd])
            })
            .collect();
        let float = *g.pick(&["f64", "f64", "f32"]);
        // an additive constant of the log-density (f64 only; in f32 it would legitimately swamp the energies)
        let offset = if float == "f64" && g.bool(1, 4) { g.log_uniform(1e2, 1e9) * if g.bool(1, 2) { 1.0 } else { -1.0 } } else { 0.0 };
        json!({"float": float, "family": *g.pick(&["smooth", "smooth", "smooth", "scaled", "scaled", "halfline", "box"]), "gseed": g.u64(), "seed": g.u64(), "accept": fbits(g.f64_in(0.5, 0.99)), "start_scale": fbits(g.log_uniform(0.1, 3.0)), "calls": calls, "offset": fbits(offset), "reseed": n_calls > 1 && g.bool(1, 3)})
    }
    fn execute(&self, p: &Value, ws: bool) -> Outcome {
        if ps(p, "float") == "f32" {
            da_run::<f32, BF32>(p, ws, 2e-5, "f32")
        } else {
            da_run::<f64, BF64>(p, ws, 1e-11, "f64")
        }
    }
    fn shrink(&self, p: &Value) -> Vec<Value> {
        let mut out = vec![];
        let calls = p["calls"].as_array().unwrap();
        if calls.len() > 1 {
            out.push(with(p, "calls", Value::Array(calls[..calls.len() - 1].to_vec())));
        }
        for (i, c) in calls.iter().enumerate() {
            for slot in [0usize, 1] {
                let cur = c[slot].as_u64().unwrap();
                let lo = if slot == 0 { 1 } else { 0 };
                for cand in [lo, cur / 2, cur.saturating_sub(1)] {
                    if cand < cur && cand >= lo {
                        let mut cs = calls.clone();
                        let mut pair = c.as_array().unwrap().clone();
                        pair[slot] = json!(cand);
                        cs[i] = Value::Array(pair);
                        out.push(with(p, "calls", Value::Array(cs)));
                    }
                }
            }
        }
        out
    }
    fn rule(&self) -> &'static str {
        "one run = a history of 1-4 run(n_collect 1..6, n_discard 0..40; thorough: up to 2000) calls on one seeded NUTSChain (warm-up counter persists; 1 history in 3 re-seeds the chain between calls), requested rate 0.5..0.99, smooth targets plus half-line / box targets (for positivity and finiteness only); after every transition the dual-averaging recurrence, the freeze invariant and positivity are checked; distinct = parameter hash"
    }
    fn components(&self) -> Value {
        json!({"real": ["NUTSChain::run/step (adaptation block)", "init_chain", "find_reasonable_epsilon"], "stub": ["dual targets"]})
    }
}

/// statistical clause (lenient): on well-conditioned Gaussians with a long warm-up the realised
/// acceptance statistic after warm-up is close to the requested one
struct AdaptationQuality;
impl Scenario for AdaptationQuality {
    fn name(&self) -> &'static str {
        "adaptation_quality"
    }
    fn runs(&self, tier: Tier) -> u64 {
        tier.pick(4, 200)
    }
    fn generate(&self, g: &mut Gen, _t: Tier, _i: u64) -> Value {
        let offset = if g.bool(1, 2) { g.log_uniform(1e3, 1e9) * if g.bool(1, 2) { 1.0 } else { -1.0 } } else { 0.0 };
        json!({"gseed": g.u64(), "seed": g.u64(), "accept": fbits(g.f64_in(0.65, 0.9)), "d": g.usize(1, 5), "offset": fbits(offset)})
    }
    fn execute(&self, p: &Value, ws: bool) -> Outcome {
        let mut o = Outcome::default();
        let mut g = Gen::new(pu(p, "gseed"));
        let mut target = GTarget::gauss(&mut g, pus(p, "d"), 9.0);
        if p.get("offset").is_some() {
            target.offset = pf(p, "offset");
        }
        target.eval_budget = 2_000_000;
        let d = target.d;
        let delta = pf(p, "accept");
        let init: Vec<f64> = (0..d).map(|_| g.normal()).collect();
        let mut chain = NUTSChain::<f64, BF64, GTarget>::new(target.clone(), init, delta).set_seed(pu(p, "seed"));
        mcmc_sim::trace::start();
        let r = std::panic::catch_unwind(std::panic::AssertUnwindSafe(|| chain.run(400, 500)));
        let ev = mcmc_sim::trace::stop();
        o.hash = str_hash(&p.to_string());
        o.nontrivial = true;
        if r.is_err() {
            let m = mcmc_sim::sim::take_last_panic().unwrap_or_default();
            o.violate("panic", "NUTS::run:panic", m);
            return o;
        }
        let trs = parse_transitions(&ev);
        // the realised statistic is measured by the reference (Algorithm 6 on the traced draws), not taken
        // from the library's own report; transitions the reference cannot decide fall back to the report
        let post: Vec<f64> = trs
            .iter()
            .filter(|t| t.complete && t.m > 500)
            .map(|t| match crate::props::c03::reference_statistic(&target, t, f64::EPSILON) {
                Some((ra, rn, _)) => ra / rn as f64,
                None => t.alpha / t.n_alpha as f64,
            })
            .collect();
        o.work = trs.len() as u64;
        let mean = post.iter().sum::<f64>() / post.len().max(1) as f64;
        if post.len() >= 300 && (mean - delta).abs() > 0.25 {
            o.violate("adaptation_quality", "NUTS::adapt:realised-acceptance-far-from-requested", format!("Gaussian d={d} (condition <= 9), warm-up 500: mean acceptance statistic after warm-up {mean:.3}, requested {delta:.3}"));
        }
        if ws {
            o.sample = Some(json!({"d": d, "requested": delta, "realised": mean, "post_warmup_transitions": post.len()}));
        }
        o
    }
    fn rule(&self) -> &'static str {
        "one run = 500 warm-up + 400 kept transitions on a random Gaussian (d 1..5, condition <= 9); |mean post-warm-up acceptance statistic - requested| < 0.25 (lenient statistical clause)"
    }
    fn components(&self) -> Value {
        json!({"real": ["NUTSChain::run"], "stub": ["dual Gaussian target"]})
    }
}
