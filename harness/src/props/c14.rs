//! C14 — no sampler ever moves to a zero-density, NaN-density or non-finite state.

use super::*;
use crate::craft::*;
use crate::gtargets::*;
use crate::props::c03::parse_transitions;
use crate::zoo::{BF32, BF64};
use burn::prelude::*;
use burn::tensor::backend::AutodiffBackend;
use burn::tensor::Element;
use mini_mcmc::core::MarkovChain;
use mini_mcmc::distributions::{Proposal, Target};
use mini_mcmc::hmc::HMC;
use mini_mcmc::metropolis_hastings::MHMarkovChain;
use mini_mcmc::nuts::NUTSChain;
use num_traits::Float;
use rand::rngs::SmallRng;
use rand::{Rng, SeedableRng};
use std::sync::atomic::Ordering;
use std::sync::{Arc, Mutex};

pub fn def() -> PropertyDef {
    PropertyDef {
        id: "C14",
        level: "exploration",
        scenarios: vec![Box::new(MhSupport), Box::new(HmcSupport), Box::new(NutsSupport), Box::new(CallbackPanics)],
        assumptions: vec![
            "the targets are the fault injectors (other party of the Target / GradientTarget seams): -inf outside a support, NaN regions, NaN gradients, cliffs; the harness's own plain-f64 copy of each target judges the states",
            "acceptance draws equal to exactly 0 are excepted as the property states (MH: the draw is read from a clone of the chain's generator before the step; HMC: from the trace)",
            "hang detection without a wall clock: the stub targets count evaluations and abort the run with a tagged panic beyond a budget",
        ],
    }
}

// ---- MH ----------------------------------------------------------------------------------------
#[derive(Clone, Debug)]
struct SupportTarget {
    kind: u8,
    c: f64,
}
impl SupportTarget {
    fn lp(&self, x: &[f64]) -> f64 {
        match self.kind {
            0 => x.iter().map(|v| if *v > 0.0 { v.ln() - v } else { f64::NEG_INFINITY }).sum(), // half-line, -inf outside
            1 => x.iter().map(|v| v.ln() - v).sum(),                                           // log of negative argument: NaN outside
            2 => {
                if x.iter().any(|v| v.abs() > self.c) {
                    f64::NEG_INFINITY
                } else {
                    -0.5 * x.iter().map(|v| v * v).sum::<f64>()
                }
            }
            3 => x.iter().map(|v| (self.c - v).sqrt() - 0.5 * v * v).sum(), // sqrt of negative argument: NaN beyond c
            _ => {
                let r2: f64 = x.iter().map(|v| v * v).sum();
                if r2 > self.c * self.c {
                    f64::NAN
                } else {
                    -0.5 * r2
                }
            }
        }
    }
}
impl Target<f64, f64> for SupportTarget {
    fn unnorm_logp(&self, x: &[f64]) -> f64 {
        self.lp(x)
    }
}
/// Gaussian random walk that sometimes proposes extreme candidates; records the last candidate
#[derive(Clone, Debug)]
struct WildProposal {
    rng: SmallRng,
    std: f64,
    wild: u64, // 1 in `wild` candidates is extreme (0 = never)
    asym: bool,
    last: Arc<Mutex<Vec<f64>>>,
}
impl Proposal<f64, f64> for WildProposal {
    fn sample(&mut self, cur: &[f64]) -> Vec<f64> {
        let mut out: Vec<f64> = cur
            .iter()
            .map(|x| {
                let u1: f64 = 1.0 - self.rng.random::<f64>();
                let u2: f64 = self.rng.random();
                x + self.std * (-2.0 * u1.ln()).sqrt() * (2.0 * std::f64::consts::PI * u2).cos()
            })
            .collect();
        if self.wild > 0 && self.rng.random::<u64>() % self.wild == 0 {
            let k = self.rng.random::<u64>();
            let i = (k % out.len() as u64) as usize;
            out[i] = [f64::INFINITY, f64::NEG_INFINITY, f64::NAN, 1e308, -1e308, 0.0, -0.0][((k >> 8) % 7) as usize];
        }
        *self.last.lock().unwrap() = out.clone();
        out
    }
    fn logp(&self, from: &[f64], to: &[f64]) -> f64 {
        let q: f64 = -from.iter().zip(to).map(|(a, b)| (a - b) * (a - b)).sum::<f64>() / (2.0 * self.std * self.std);
        if self.asym {
            q + 0.3 * to.iter().sum::<f64>().tanh()
        } else {
            q
        }
    }
    fn set_seed(mut self, seed: u64) -> Self {
        self.rng = SmallRng::seed_from_u64(seed);
        self
    }
}

// ---- fault: the user's target code fails (panics) at some evaluation and the caller catches it ----
/// target that panics at its k-th evaluation of an INADMISSIBLE point (one shot)
#[derive(Clone, Debug)]
struct FusedTarget {
    inner: SupportTarget,
    fuse: Arc<std::sync::atomic::AtomicI64>,
}
impl Target<f64, f64> for FusedTarget {
    fn unnorm_logp(&self, x: &[f64]) -> f64 {
        let v = self.inner.lp(x);
        if !(v.is_finite() && x.iter().all(|c| c.is_finite())) && self.fuse.fetch_sub(1, Ordering::SeqCst) == 1 {
            panic!("VERIF-INJECTED target failure while evaluating an inadmissible candidate");
        }
        v
    }
}

struct CallbackPanics;
impl Scenario for CallbackPanics {
    fn name(&self) -> &'static str {
        "callback_panics"
    }
    fn runs(&self, tier: Tier) -> u64 {
        tier.pick(1200, 120_000)
    }
    fn generate(&self, g: &mut Gen, _t: Tier, idx: u64) -> Value {
        let sampler = ["mh", "mh", "mh", "hmc", "nuts"][(idx % 5) as usize];
        json!({"sampler": sampler, "kind": g.range(0, 4), "c": fbits(g.f64_in(0.5, 3.0)), "d": g.usize(1, 3), "std": fbits(g.log_uniform(0.3, 10.0)), "seed": g.u64(), "gseed": g.u64(),
               "fuse": g.usize(1, 6), "crash_eval": g.usize(2, 60), "steps_after": g.usize(1, 6), "eps": fbits(g.log_uniform(0.05, 2.0)), "L": g.usize(1, 6)})
    }
    fn execute(&self, p: &Value, ws: bool) -> Outcome {
        let mut o = Outcome::default();
        o.hash = str_hash(&p.to_string());
        let mut g = Gen::new(pu(p, "gseed"));
        let _ = mcmc_sim::sim::take_last_panic();
        let mut fired = false;
        match ps(p, "sampler") {
            "mh" => {
                let inner = SupportTarget { kind: pu(p, "kind") as u8, c: pf(p, "c") };
                let d = pus(p, "d");
                let start: Vec<f64> = vec![if inner.kind <= 1 { 0.4 } else { 0.0 }; d];
                let fuse = Arc::new(std::sync::atomic::AtomicI64::new(pus(p, "fuse") as i64));
                let t = FusedTarget { inner: inner.clone(), fuse };
                let last = Arc::new(Mutex::new(vec![]));
                let prop = WildProposal { rng: SmallRng::seed_from_u64(g.u64()), std: pf(p, "std"), wild: 0, asym: false, last };
                let mut chain = MHMarkovChain::new(t, prop, start);
                chain.rng = SmallRng::seed_from_u64(pu(p, "seed"));
                let mut after = 0;
                for step in 0..400 {
                    let before = chain.current_state.clone();
                    let r = std::panic::catch_unwind(std::panic::AssertUnwindSafe(|| {
                        chain.step();
                    }));
                    o.work += 1;
                    if r.is_err() {
                        let m = mcmc_sim::sim::take_last_panic().unwrap_or_default();
                        if !m.contains("VERIF-INJECTED") {
                            let loc = m.rsplit(" @ ").next().unwrap_or("").to_string();
                            o.violate("panic", &format!("MH::step:panic@{loc}"), m);
                            break;
                        }
                        fired = true;
                    }
                    let now = chain.current_state.clone();
                    if !(now.iter().all(|v| v.is_finite()) && inner.lp(&now).is_finite()) {
                        o.violate("inadmissible_state", "MH:left-on-inadmissible-state-after-target-failure", format!("step {step}: the target's code failed while the candidate was being judged and the chain is left at {now:?} (log-density {}), it was at {before:?}", inner.lp(&now)));
                        break;
                    }
                    if fired {
                        after += 1;
                        if after > pus(p, "steps_after") {
                            break;
                        }
                    }
                }
            }
            kind => {
                let mut target = gen_support_target(&mut g);
                let s = support_start(&mut g, &target);
                target.crash_at = pus(p, "crash_eval") as u64;
                target.eval_budget = 200_000;
                let d = target.d;
                let dev = <BF64 as burn::tensor::backend::Backend>::Device::default();
                let judge = |o: &mut Outcome, pos: Vec<f64>, what: &str, step: usize| -> bool {
                    for row in pos.chunks(d) {
                        if !target.admissible(row) {
                            o.violate("inadmissible_state", &format!("{what}:left-on-inadmissible-state-after-target-failure"), format!("step {step}: after the target's code failed the sampler holds {row:?} (log-density {}) [{:?} c={}]", target.logp(row), target.kind, target.c));
                            return false;
                        }
                    }
                    true
                };
                let _ = dev;
                if kind == "hmc" {
                    let nc = g.usize(1, 4);
                    let starts: Vec<Vec<f64>> = (0..nc).map(|_| s.clone()).collect();
                    let mut h = HMC::<f64, BF64, GTarget>::new(target.clone(), starts, pf(p, "eps"), pus(p, "L")).set_seed(pu(p, "seed"));
                    for step in 0..40 {
                        let r = std::panic::catch_unwind(std::panic::AssertUnwindSafe(|| h.step()));
                        o.work += 1;
                        if r.is_err() {
                            let m = mcmc_sim::sim::take_last_panic().unwrap_or_default();
                            if m.contains("VERIF-EVAL-BUDGET") {
                                break;
                            }
                            if !m.contains("VERIF-INJECTED") {
                                let loc = m.rsplit(" @ ").next().unwrap_or("").to_string();
                                o.violate("panic", &format!("HMC::step:panic@{loc}"), m);
                                break;
                            }
                            fired = true;
                        }
                        let pos = h.positions.to_data().convert::<f64>().to_vec::<f64>().unwrap();
                        if !judge(&mut o, pos, "HMC", step) {
                            break;
                        }
                    }
                } else {
                    let mut chain = NUTSChain::<f64, BF64, GTarget>::new(target.clone(), s.clone(), 0.8).set_seed(pu(p, "seed"));
                    // run() for the start-up search, then single steps
                    let r0 = std::panic::catch_unwind(std::panic::AssertUnwindSafe(|| {
                        let _ = chain.run(2, 1);
                    }));
                    if r0.is_err() {
                        let m = mcmc_sim::sim::take_last_panic().unwrap_or_default();
                        fired = m.contains("VERIF-INJECTED");
                        if !fired && !m.contains("VERIF-EVAL-BUDGET") {
                            let loc = m.rsplit(" @ ").next().unwrap_or("").to_string();
                            o.violate("panic", &format!("NUTS::run:panic@{loc}"), m);
                        }
                    }
                    let pos = chain.position.to_data().convert::<f64>().to_vec::<f64>().unwrap();
                    if o.violations.is_empty() && judge(&mut o, pos, "NUTS", 0) {
                        for step in 1..12 {
                            let r = std::panic::catch_unwind(std::panic::AssertUnwindSafe(|| chain.step()));
                            o.work += 1;
                            if r.is_err() {
                                let m = mcmc_sim::sim::take_last_panic().unwrap_or_default();
                                if m.contains("VERIF-EVAL-BUDGET") {
                                    break;
                                }
                                if !m.contains("VERIF-INJECTED") {
                                    let loc = m.rsplit(" @ ").next().unwrap_or("").to_string();
                                    o.violate("panic", &format!("NUTS::step:panic@{loc}"), m);
                                    break;
                                }
                                fired = true;
                            }
                            let pos = chain.position.to_data().convert::<f64>().to_vec::<f64>().unwrap();
                            if !judge(&mut o, pos, "NUTS", step) {
                                break;
                            }
                        }
                    }
                }
            }
        }
        o.nontrivial = fired;
        o.count("fault_target_code_panicked", fired as u64);
        o.count(&format!("probe_callback_panic_{}", ps(p, "sampler")), fired as u64);
        if ws {
            o.sample = Some(json!({"sampler": ps(p, "sampler"), "fault_fired": fired}));
        }
        o
    }
    fn rule(&self) -> &'static str {
        "one run = an MH chain (3 in 5), an HMC batch or a NUTS chain on a bounded-support / NaN-region target whose code panics once - MH: at the k-th evaluation of an inadmissible candidate, HMC/NUTS: at evaluation k - with the caller catching the panic (as a worker-thread join does) and going on; after the failed step and after every later step the sampler's state must be admissible; non-trivial = the fault fired"
    }
    fn components(&self) -> Value {
        json!({"real": ["MHMarkovChain::step", "HMC::step", "NUTSChain::run/step"], "stub": ["targets with an injected one-shot panic"]})
    }
}

struct MhSupport;
impl Scenario for MhSupport {
    fn name(&self) -> &'static str {
        "mh_bounded_support"
    }
    fn runs(&self, tier: Tier) -> u64 {
        tier.pick(4000, 400_000)
    }
    fn generate(&self, g: &mut Gen, _t: Tier, _i: u64) -> Value {
        json!({"kind": g.range(0, 4), "c": fbits(g.f64_in(0.5, 3.0)), "d": g.usize(1, 4), "std": fbits(g.log_uniform(0.05, 20.0)), "wild": *g.pick(&[0u64, 0, 5, 20]), "asym": g.bool(1, 3), "seed": g.u64(), "steps": g.usize(50, 400), "inject_tiny_u": g.bool(1, 4)})
    }
    fn execute(&self, p: &Value, ws: bool) -> Outcome {
        let mut o = Outcome::default();
        let t = SupportTarget { kind: pu(p, "kind") as u8, c: pf(p, "c") };
        let d = pus(p, "d");
        let mut g = Gen::new(pu(p, "seed"));
        // a start of finite density, possibly close to the boundary
        let mut start: Vec<f64> = (0..d)
            .map(|_| match t.kind {
                0 | 1 => g.log_uniform(1e-6, 3.0),
                2 => g.f64_in(-0.999, 0.999) * t.c,
                3 => t.c - g.log_uniform(1e-6, 2.0),
                _ => g.f64_in(-0.7, 0.7) * t.c / (d as f64).sqrt(),
            })
            .collect();
        if !t.lp(&start).is_finite() {
            start = vec![if t.kind <= 1 { 1.0 } else { 0.0 }; d];
        }
        let last = Arc::new(Mutex::new(vec![]));
        let prop = WildProposal { rng: SmallRng::seed_from_u64(g.u64()), std: pf(p, "std"), wild: pu(p, "wild"), asym: pb(p, "asym"), last: last.clone() };
        let mut chain = MHMarkovChain::new(t.clone(), prop, start.clone());
        chain.rng = SmallRng::seed_from_u64(g.u64());
        let inject = pb(p, "inject_tiny_u");
        let mut hash = 0u64;
        let _ = mcmc_sim::sim::take_last_panic();
        for step in 0..pus(p, "steps") {
            if inject && step % 3 == 0 {
                // the smallest non-zero draws: 1..4 ulp (never exactly 0)
                chain.rng = craft_small_rng(raw_for_f64_k(g.range(1, 4)) | (g.u64() & 0x7ff));
            }
            let u: f64 = chain.rng.clone().random();
            let before = chain.current_state.clone();
            let r = std::panic::catch_unwind(std::panic::AssertUnwindSafe(|| {
                chain.step();
            }));
            if r.is_err() {
                let m = mcmc_sim::sim::take_last_panic().unwrap_or_default();
                let loc = m.rsplit(" @ ").next().unwrap_or("").to_string();
                o.violate("panic", &format!("MH::step:panic@{loc}"), m);
                break;
            }
            o.work += 1;
            if u == 0.0 {
                o.count("excepted_draw_exactly_zero", 1);
                chain.current_state = before; // excepted by the property: continue from the previous state
                continue;
            }
            let cand = last.lock().unwrap().clone();
            let cand_ok = cand.iter().all(|v| v.is_finite()) && t.lp(&cand).is_finite();
            let now = chain.current_state.clone();
            let now_ok = now.iter().all(|v| v.is_finite()) && t.lp(&now).is_finite();
            o.count("probe_inadmissible_candidates", (!cand_ok) as u64);
            o.count("probe_nan_density_candidates", t.lp(&cand).is_nan() as u64);
            o.count("probe_nonfinite_coordinate_candidates", (!cand.iter().all(|v| v.is_finite())) as u64);
            if !now_ok {
                let key = if !now.iter().all(|v| v.is_finite()) {
                    "MH:moved-to-non-finite-coordinates"
                } else if t.lp(&now).is_nan() {
                    "MH:moved-to-NaN-density"
                } else {
                    "MH:moved-to-zero-density"
                };
                o.violate("inadmissible_state", key, format!("step {step}: chain moved from {before:?} (log-density {}) to {now:?} (log-density {}), acceptance draw {u:e}, target kind {}", t.lp(&before), t.lp(&now), t.kind));
                break;
            }
            if !cand_ok && now.iter().zip(before.iter()).any(|(a, b)| a.to_bits() != b.to_bits()) {
                o.violate("state_changed_on_rejection", "MH:state-changed-although-candidate-inadmissible", format!("step {step}: candidate {cand:?} is inadmissible but the state changed from {before:?} to {now:?}"));
                break;
            }
            hash = mix(hash, now[0].to_bits());
        }
        o.hash = mix(hash, str_hash(&p.to_string()));
        o.nontrivial = true;
        if ws {
            o.sample = Some(json!({"target_kind": t.kind, "c": t.c, "start": start, "proposal_std": pf(p, "std"), "final": chain.current_state}));
        }
        o
    }
    fn shrink(&self, p: &Value) -> Vec<Value> {
        let mut out = vec![];
        shrink_int(p, "steps", 1, &mut out);
        shrink_int(p, "d", 1, &mut out);
        out
    }
    fn rule(&self) -> &'static str {
        "one run = 50..400 MH steps on a target with bounded support or a NaN region (half-line with -inf, log / sqrt of negative arguments, box, NaN beyond a radius), Gaussian proposals with std 0.05..20 that leave the support, occasionally extreme candidates (inf, NaN, 1e308), asymmetric q, acceptance draws down to 1 ulp injected; invariant after every step; distinct = trajectory hash"
    }
    fn components(&self) -> Value {
        json!({"real": ["MHMarkovChain::step"], "stub": ["fault-returning Target", "recording Proposal with extreme candidates", "crafted tiny acceptance draws"]})
    }
}

// ---- HMC ---------------------------------------------------------------------------------------
pub fn gen_support_target(g: &mut Gen) -> GTarget {
    let kind = g.pick(&[GKind::HalfLineLog, GKind::Box, GKind::SqrtEdge, GKind::NanBeyond, GKind::Cliff]).clone();
    let d = g.usize(1, 4);
    let mut t = GTarget::new(kind, d);
    t.c = g.f64_in(0.6, 3.0);
    t
}
pub fn support_start(g: &mut Gen, t: &GTarget) -> Vec<f64> {
    let near = g.bool(1, 3);
    let s: Vec<f64> = (0..t.d)
        .map(|_| match t.kind {
            GKind::HalfLineLog => {
                if near {
                    g.log_uniform(1e-4, 1e-1)
                } else {
                    g.f64_in(0.3, 3.0)
                }
            }
            GKind::Box => g.f64_in(-1.0, 1.0) * t.c * if near { 0.999 } else { 0.6 },
            GKind::SqrtEdge => t.c - if near { g.log_uniform(1e-4, 1e-1) } else { g.f64_in(0.5, 2.0) },
            GKind::NanBeyond => g.f64_in(-1.0, 1.0) * t.c / (t.d as f64).sqrt() * if near { 0.99 } else { 0.5 },
            _ => t.c.min(0.0) - g.f64_in(0.0, 1.5) + if near { t.c - 0.01 } else { 0.0 }.min(t.c - 0.001).max(-3.0).min(0.0),
        })
        .collect();
    if t.admissible(&s) {
        s
    } else {
        match t.kind {
            GKind::HalfLineLog => vec![1.0; t.d],
            GKind::SqrtEdge | GKind::Cliff => vec![t.c - 1.0; t.d],
            _ => vec![0.0; t.d],
        }
    }
}

fn hmc_support<T, B>(p: &Value, ws: bool, name: &'static str) -> Outcome
where
    T: Float + burn::tensor::ElementConversion + Element + rand_distr::uniform::SampleUniform + num_traits::FromPrimitive,
    B: AutodiffBackend,
    rand_distr::StandardNormal: rand::distr::Distribution<T>,
    rand_distr::StandardUniform: rand_distr::Distribution<T>,
{
    let mut o = Outcome::default();
    let mut g = Gen::new(pu(p, "gseed"));
    let mut target = gen_support_target(&mut g);
    target.eval_budget = 100_000;
    let d = target.d;
    let nc = pus(p, "n_chains");
    // starts: representable in T and of finite density as T sees them
    let starts: Vec<Vec<T>> = (0..nc)
        .map(|_| {
            let s = support_start(&mut g, &target);
            let st: Vec<T> = s.iter().map(|x| T::from(*x).unwrap()).collect();
            let back: Vec<f64> = st.iter().map(|x| num_traits::ToPrimitive::to_f64(x).unwrap()).collect();
            if target.admissible(&back) {
                st
            } else {
                s.iter().map(|_| T::from(if target.kind == GKind::HalfLineLog { 1.0 } else { 0.0 }).unwrap()).collect()
            }
        })
        .collect();
    let eps = pf(p, "eps");
    let l = pus(p, "L");
    let mut h = HMC::<T, B, GTarget>::new(target.clone(), starts, T::from(eps).unwrap_or(T::max_value()), l).set_seed(pu(p, "seed"));
    let tv = |t: &Tensor<B, 2>| t.to_data().convert::<f64>().to_vec::<f64>().unwrap();
    let site = format!("HMC[{name}]");
    let mut hash = 0u64;
    let _ = mcmc_sim::sim::take_last_panic();
    for step in 0..pus(p, "steps") {
        let before = tv(&h.positions);
        mcmc_sim::trace::start();
        let r = std::panic::catch_unwind(std::panic::AssertUnwindSafe(|| h.step()));
        let ev = mcmc_sim::trace::stop();
        if r.is_err() {
            let m = mcmc_sim::sim::take_last_panic().unwrap_or_default();
            if m.contains("VERIF-EVAL-BUDGET") {
                o.violate("hang", &format!("{site}:unbounded-evaluations"), m);
            } else {
                let loc = m.rsplit(" @ ").next().unwrap_or("").to_string();
                o.violate("panic", &format!("{site}:panic@{loc}"), format!("step size {eps:e}, L {l}, {:?}: {m}", target.kind));
            }
            break;
        }
        let after = tv(&h.positions);
        let get = |role: &str| ev.iter().find(|e| e.role == role).map(|e| e.vals.clone()).unwrap_or_default();
        let (ppos, us, lp1) = (get("hmc_prop_pos"), get("hmc_u"), get("hmc_logp1"));
        for c in 0..nc {
            o.work += 1;
            let old = &before[c * d..(c + 1) * d];
            let new = &after[c * d..(c + 1) * d];
            if us.get(c).copied() == Some(0.0) {
                o.count("excepted_draw_exactly_zero", 1);
                continue;
            }
            let cand = if ppos.len() == nc * d { ppos[c * d..(c + 1) * d].to_vec() } else { vec![] };
            let cand_ok = !cand.is_empty() && target.admissible(&cand);
            o.count("probe_inadmissible_proposals", (!cand_ok) as u64);
            o.count("probe_nonfinite_proposals", (!cand.iter().all(|v| v.is_finite())) as u64);
            o.count("probe_nan_density_proposals", (lp1.get(c).map(|v| v.is_nan()).unwrap_or(false)) as u64);
            if !target.admissible(new) {
                let key = if !new.iter().all(|v| v.is_finite()) {
                    format!("{site}:moved-to-non-finite-coordinates")
                } else if target.logp(new).is_nan() {
                    format!("{site}:moved-to-NaN-density")
                } else {
                    format!("{site}:moved-to-zero-density")
                };
                o.violate("inadmissible_state", &key, format!("step {step} chain {c}: {old:?} -> {new:?} (log-density {}), {:?} c={}, eps={eps:e}, L={l}", target.logp(new), target.kind, target.c));
                break;
            }
            if !cand_ok && new.iter().zip(old.iter()).any(|(a, b)| a.to_bits() != b.to_bits()) {
                o.violate("state_changed_on_rejection", &format!("{site}:state-changed-although-proposal-inadmissible"), format!("step {step} chain {c}: proposal {cand:?} inadmissible but the row changed from {old:?} to {new:?}"));
                break;
            }
            hash = mix(hash, new[0].to_bits());
        }
        if !o.violations.is_empty() {
            break;
        }
    }
    o.count("probe_overflowing_step_size", (eps > 1e20) as u64);
    o.hash = mix(hash, str_hash(&p.to_string()));
    o.nontrivial = true;
    if ws {
        o.sample = Some(json!({"target": target.describe(), "backend": name, "eps": eps, "L": l, "n_chains": nc, "evaluations": target.evals.load(Ordering::Relaxed)}));
    }
    o
}

struct HmcSupport;
impl Scenario for HmcSupport {
    fn recheckable(&self, p: &Value) -> bool {
        // f32 gradients of the NdArray backend are not repeatable bit for bit (see Scenario::recheckable)
        ps(p, "float") != "f32"
    }
    fn name(&self) -> &'static str {
        "hmc_bounded_support"
    }
    fn runs(&self, tier: Tier) -> u64 {
        tier.pick(900, 100_000)
    }
    fn generate(&self, g: &mut Gen, _t: Tier, _i: u64) -> Value {
        let eps = match g.range(0, 9) {
            // incl. the largest finite step of either float type and an infinite one
            0 => *g.pick(&[1e30, 3.0e38, 1e10, 1e300, f32::MAX as f64, f64::MAX, f64::INFINITY, 1e39]),
            1 | 2 => g.log_uniform(1.0, 1e4),
            _ => g.log_uniform(1e-3, 1.0),
        };
        json!({"float": *g.pick(&["f32", "f64"]), "gseed": g.u64(), "seed": g.u64(), "n_chains": g.usize(1, 8), "eps": fbits(eps), "L": if eps > 1e9 && g.bool(1, 2) { 1 } else { g.usize(1, 16) }, "steps": g.usize(3, 25)})
    }
    fn execute(&self, p: &Value, ws: bool) -> Outcome {
        if ps(p, "float") == "f32" {
            hmc_support::<f32, BF32>(p, ws, "f32")
        } else {
            hmc_support::<f64, BF64>(p, ws, "f64")
        }
    }
    fn shrink(&self, p: &Value) -> Vec<Value> {
        let mut out = vec![];
        shrink_int(p, "steps", 1, &mut out);
        shrink_int(p, "n_chains", 1, &mut out);
        shrink_int(p, "L", 1, &mut out);
        out
    }
    fn rule(&self) -> &'static str {
        "one run = 3..25 HMC steps of 1..8 chains on a target with bounded support / NaN region / cliff (burn code with log, sqrt and masks), starts of finite density incl. next to the boundary, step sizes 1e-3 up to 3e38 (overflow), L 1..16, f32/f64; invariant after every step for every row, rows with inadmissible proposals bitwise unchanged; distinct = trajectory hash"
    }
    fn components(&self) -> Value {
        json!({"real": ["HMC::step", "burn autodiff"], "stub": ["fault-returning dual targets"]})
    }
}

// ---- NUTS --------------------------------------------------------------------------------------
fn nuts_support<T, B>(p: &Value, ws: bool, name: &'static str) -> Outcome
where
    T: Float + burn::tensor::ElementConversion + Element + rand_distr::uniform::SampleUniform + num_traits::FromPrimitive,
    B: AutodiffBackend,
    rand_distr::StandardNormal: rand::distr::Distribution<T>,
    rand_distr::StandardUniform: rand_distr::Distribution<T>,
    rand_distr::Exp1: rand_distr::Distribution<T>,
{
    let mut o = Outcome::default();
    let mut g = Gen::new(pu(p, "gseed"));
    let mut target = gen_support_target(&mut g);
    // budget per run: far above anything a bounded trajectory needs (depth <= 12 would be 8190 per transition)
    target.eval_budget = std::env::var("VERIF_NUTS_BUDGET").ok().and_then(|s| s.parse().ok()).unwrap_or(1 << 18);
    let s = support_start(&mut g, &target);
    let st: Vec<T> = s.iter().map(|x| T::from(*x).unwrap()).collect();
    let back: Vec<f64> = st.iter().map(|x| num_traits::ToPrimitive::to_f64(x).unwrap()).collect();
    let site = format!("NUTS[{name}]");
    o.hash = str_hash(&p.to_string());
    if !target.admissible(&back) {
        return o;
    }
    o.nontrivial = true;
    let mut chain = NUTSChain::<T, B, GTarget>::new(target.clone(), st, T::from(pf(p, "accept")).unwrap()).set_seed(pu(p, "seed"));
    let (ncol, ndis) = (pus(p, "n_collect"), pus(p, "n_discard"));
    mcmc_sim::trace::start();
    let _ = mcmc_sim::sim::take_last_panic();
    let r = std::panic::catch_unwind(std::panic::AssertUnwindSafe(|| chain.run(ncol, ndis)));
    let ev = mcmc_sim::trace::stop();
    let trs = parse_transitions(&ev);
    o.work = trs.len() as u64;
    match r {
        Err(_) => {
            let m = mcmc_sim::sim::take_last_panic().unwrap_or_default();
            if m.contains("VERIF-EVAL-BUDGET") {
                // a hang only if the library keeps doubling after Algorithm 6's stopping point, or the
                // initial step-size search itself (bounded by the float range) never ends; a merely long
                // trajectory (tiny adapted step size next to a boundary) is not judged
                o.count("evaluation_budget_exhausted", 1);
                match trs.last() {
                    None => o.violate("hang", &format!("{site}:initial-step-size-search-unbounded"), format!("more than 2^18 target evaluations before the first transition ({:?} c={}, start {back:?})", target.kind, target.c)),
                    Some(lt) if !lt.complete => crate::props::c03::judge_cut_off_transition(&mut o, &target, lt, if name == "f32" { f32::EPSILON as f64 } else { f64::EPSILON }, name),
                    _ => o.count("cut_off_long_trajectory_not_judged", 1),
                }
            } else {
                let loc = m.rsplit(" @ ").next().unwrap_or("").to_string();
                o.violate("panic", &format!("{site}:panic@{loc}"), format!("{:?} from {back:?}: {m}", target.kind));
            }
            return o;
        }
        Ok(sample) => {
            let vals = sample.to_data().convert::<f64>().to_vec::<f64>().unwrap();
            let d = target.d;
            for (k, row) in vals.chunks(d).enumerate() {
                if !target.admissible(row) {
                    let key = if !row.iter().all(|v| v.is_finite()) {
                        format!("{site}:moved-to-non-finite-coordinates")
                    } else if target.logp(row).is_nan() {
                        format!("{site}:moved-to-NaN-density")
                    } else {
                        format!("{site}:moved-to-zero-density")
                    };
                    o.violate("inadmissible_state", &key, format!("returned draw {k} = {row:?} has log-density {} ({:?} c={}, start {back:?})", target.logp(row), target.kind, target.c));
                    return o;
                }
            }
        }
    }
    // every intermediate position (also during warm-up), from the trace
    for lt in &trs {
        if !target.admissible(&lt.pos) {
            o.violate("inadmissible_state", &format!("{site}:intermediate-position-inadmissible"), format!("transition {} started from {:?} (log-density {})", lt.m, lt.pos, target.logp(&lt.pos)));
            return o;
        }
        o.count("probe_transitions", 1);
        o.count("probe_transitions_with_nan_statistic", lt.alpha.is_nan() as u64);
        o.count("probe_step_size_above_1e6", (lt.eps > 1e6) as u64);
    }
    if ws {
        o.sample = Some(json!({"target": target.describe(), "backend": name, "start": back, "transitions": trs.len(), "evaluations": target.evals.load(Ordering::Relaxed)}));
    }
    o
}

struct NutsSupport;
impl Scenario for NutsSupport {
    fn recheckable(&self, p: &Value) -> bool {
        // f32 gradients of the NdArray backend are not repeatable bit for bit (see Scenario::recheckable)
        ps(p, "float") != "f32"
    }
    fn name(&self) -> &'static str {
        "nuts_bounded_support"
    }
    fn runs(&self, tier: Tier) -> u64 {
        tier.pick(500, 60_000)
    }
    fn generate(&self, g: &mut Gen, _t: Tier, _i: u64) -> Value {
        json!({"float": *g.pick(&["f32", "f64"]), "gseed": g.u64(), "seed": g.u64(), "n_collect": g.usize(1, 10), "n_discard": g.usize(0, 25), "accept": fbits(g.f64_in(0.55, 0.95))})
    }
    fn execute(&self, p: &Value, ws: bool) -> Outcome {
        if ps(p, "float") == "f32" {
            nuts_support::<f32, BF32>(p, ws, "f32")
        } else {
            nuts_support::<f64, BF64>(p, ws, "f64")
        }
    }
    fn shrink(&self, p: &Value) -> Vec<Value> {
        let mut out = vec![];
        shrink_int(p, "n_discard", 0, &mut out);
        shrink_int(p, "n_collect", 1, &mut out);
        out
    }
    fn rule(&self) -> &'static str {
        "one run = NUTSChain::run (1..10 kept, 0..25 warm-up) on a target with bounded support / NaN region / cliff from a start of finite density (incl. next to the boundary), f32/f64; every returned draw and every intermediate position admissible, no panic, no doubling beyond Algorithm 6's stopping point (decided when the evaluation budget of 2^18 per run cuts a transition off); distinct = parameter hash"
    }
    fn components(&self) -> Value {
        json!({"real": ["NUTSChain::run", "find_reasonable_epsilon", "build_tree"], "stub": ["fault-returning dual targets with an evaluation budget"]})
    }
}
