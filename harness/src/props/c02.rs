//! C02 — HMC update = L leapfrog steps plus Metropolis test on the Hamiltonian.

use super::*;
use crate::gtargets::*;
use crate::zoo::{BF32, BF64};
use burn::prelude::*;
use burn::tensor::backend::AutodiffBackend;
use burn::tensor::Element;
use mini_mcmc::hmc::HMC;
use num_traits::Float;
use std::sync::atomic::Ordering;

pub fn def() -> PropertyDef {
    PropertyDef {
        id: "C02",
        level: "exploration",
        scenarios: vec![Box::new(HmcSteps), Box::new(TargetPanics)],
        assumptions: vec![
            "the momenta and acceptance draws a step consumed are taken from the draw trace (hook H5), so the oracle does not depend on which generator produced them",
            "reference = velocity Verlet in f64 on the analytic gradient; tolerance is condition-aware: the reference is run a second time on inputs perturbed by a few backend ulps and the observed amplification sets the tolerance; rows whose own tolerance exceeds 5% of the scale are counted, not judged",
        ],
    }
}

fn perturb(v: &[f64], rel: f64, salt: u64) -> Vec<f64> {
    v.iter().enumerate().map(|(i, x)| x + rel * (x.abs() + 1e-3) * if mix(salt, i as u64) & 1 == 0 { 1.0 } else { -1.0 }).collect()
}
fn maxabs(v: &[f64]) -> f64 {
    v.iter().fold(0.0f64, |a, b| a.max(b.abs()))
}
fn maxdiff(a: &[f64], b: &[f64]) -> f64 {
    a.iter().zip(b).fold(0.0f64, |m, (x, y)| if (x - y).is_nan() { f64::INFINITY } else { m.max((x - y).abs()) })
}

/// Largest amplification (output change / input change) of the reference integrator observed for
/// perturbations in 3 directions applied at the start, after a third and after two thirds of the
/// trajectory: (largest absolute output change for the start perturbations, largest gain).
fn amplification(t: &GTarget, x: &[f64], p: &[f64], eps: f64, l: usize, eps_b: f64) -> (f64, f64) {
    let (rx, rp) = ref_leapfrog(t, x, p, eps, l);
    let mut amp0 = 0.0f64;
    let mut gain = 1.0f64;
    for (k, salt) in [(0usize, 11u64), (0, 13), (0, 19), (l / 3, 41), (l / 3, 43), (2 * l / 3, 47), (2 * l / 3, 53)] {
        if k > 0 && k >= l {
            continue;
        }
        let (mx, mp) = ref_leapfrog(t, x, p, eps, k);
        let (px, pp) = (perturb(&mx, 4.0 * eps_b, salt), perturb(&mp, 4.0 * eps_b, salt + 6));
        let (ex, ep) = ref_leapfrog(t, &px, &pp, eps, l - k);
        let out = maxdiff(&rx, &ex).max(maxdiff(&rp, &ep));
        let inp = 4.0 * eps_b * (maxabs(&mx).max(maxabs(&mp)) + 1e-3);
        if k == 0 {
            amp0 = amp0.max(out);
        }
        gain = gain.max(out / inp);
    }
    (if amp0.is_nan() { f64::INFINITY } else { amp0 }, if gain.is_nan() { f64::INFINITY } else { gain })
}

fn tvals<B: Backend, const D: usize>(t: &Tensor<B, D>) -> Vec<f64> {
    t.to_data().convert::<f64>().to_vec::<f64>().unwrap()
}

fn hmc_steps<T, B>(params: &Value, ws: bool, eps_b: f64, name: &'static str) -> Outcome
where
    T: Float + burn::tensor::ElementConversion + Element + rand_distr::uniform::SampleUniform + num_traits::FromPrimitive,
    B: AutodiffBackend,
    rand_distr::StandardNormal: rand::distr::Distribution<T>,
    rand_distr::StandardUniform: rand_distr::Distribution<T>,
{
    let mut o = Outcome::default();
    let mut g = Gen::new(pu(params, "gseed"));
    let mut target = gen_smooth(&mut g, false);
    // special cases of "any differentiable target ... whatever the state": a kink (finite density, NaN
    // gradient at the origin: a chain standing exactly there has no trajectory and must stay), and targets
    // with a NaN / zero-density region in which some chains START (H(x) NaN: `ln u <= NaN` is false, stay)
    let special = params.get("special").and_then(|v| v.as_str()).unwrap_or("");
    if special == "kink" {
        target = GTarget::new(GKind::Kink, g.usize(1, 4));
    } else if special == "support" {
        // log x - x: NaN for x <= 0 in the backend and in the reference alike, with the same finite gradient
        // 1/x - 1 on both sides (the masked targets of C14 have a backend gradient of 0 outside their support
        // and are not usable for a trajectory oracle)
        target = GTarget::new(GKind::HalfLineLog, g.usize(1, 3));
    } else if special == "boxinf" {
        // standard normal restricted to a box, log-density -inf outside: every chain STARTS outside, so that
        // H(x) = +inf; a proposal that is outside too gives H - H' = inf - inf (NaN): `ln u <= NaN` is false,
        // the row stays. Only the decision is judged here (the backend's gradient outside the mask is 0, the
        // analytic one is not: no trajectory oracle).
        target = GTarget::new(GKind::Box, g.usize(1, 3));
    }
    let decision_only = special == "boxinf";
    let d = target.d;
    let nc = pus(params, "n_chains");
    let l = pus(params, "L");
    let eps = pf(params, "eps");
    let steps = pus(params, "steps");
    let scale0 = pf(params, "start_scale");
    let mut init64: Vec<Vec<f64>> = (0..nc).map(|_| (0..d).map(|_| g.normal() * scale0).collect()).collect();
    if special == "kink" {
        init64[0] = vec![0.0; d];
        o.count("probe_chain_on_a_gradient_kink", 1);
    } else if special == "support" {
        for (c, row) in init64.iter_mut().enumerate() {
            let inside = crate::props::c14::support_start(&mut g, &target);
            *row = if c % 2 == 0 { inside } else { inside.iter().map(|v| -v.abs() - 0.25).collect() };
        }
        o.count("probe_chains_started_outside_the_support", (nc / 2) as u64);
    } else if decision_only {
        for row in init64.iter_mut() {
            *row = (0..d).map(|_| (target.c + 1.0 + g.normal().abs()) * if g.bool(1, 2) { -1.0 } else { 1.0 }).collect();
        }
        o.count("probe_chains_started_at_minus_inf_density", nc as u64);
    }
    let init: Vec<Vec<T>> = init64.iter().map(|r| r.iter().map(|x| T::from(*x).unwrap()).collect()).collect();
    let eps_t = T::from(eps).unwrap();
    let eps_used = num_traits::ToPrimitive::to_f64(&eps_t).unwrap();
    let mut h = HMC::<T, B, GTarget>::new(target.clone(), init.clone(), eps_t, l).set_seed(pu(params, "hseed"));
    let (l0, eps_t0) = (l, eps_t);
    let (mut l, mut eps_t, mut eps_used) = (l, eps_t, eps_used);
    let retune = params.get("retune").and_then(|v| v.as_bool()).unwrap_or(false);
    let site = format!("HMC::step[{name}]");
    let mut hash = 0u64;
    let mut samples = vec![];
    let mut prev_rejected = vec![false; nc];
    for step in 0..steps {
        // histories: between two steps the caller re-tunes the sampler through its public fields
        // (the only way to change the step size / trajectory length / to restart a row)
        if retune && step > 0 {
            match g.range(0, 3) {
                0 => {
                    eps_t = eps_t * T::from(*g.pick(&[0.25, 0.5, 2.0, 1.5])).unwrap();
                    eps_used = num_traits::ToPrimitive::to_f64(&eps_t).unwrap();
                    h.step_size = eps_t;
                    o.count("probe_step_size_reassigned", 1);
                }
                1 => {
                    l = g.usize(0, 12);
                    h.n_leapfrog = l;
                    o.count("probe_n_leapfrog_reassigned", 1);
                }
                2 => {
                    let mut cur = tvals(&h.positions);
                    let c = g.usize(0, nc - 1);
                    for j in 0..d {
                        cur[c * d + j] = ((g.normal() * scale0) as f32) as f64;
                    }
                    h.positions = Tensor::<B, 2>::from_data(TensorData::new(cur, [nc, d]), &h.positions.device());
                    prev_rejected[c] = false;
                    o.count("probe_positions_reassigned", 1);
                }
                _ => {
                    // a new random stream; everything else the sampler holds must survive
                    h = h.set_seed(g.u64());
                    o.count("probe_reseeded_between_steps", 1);
                }
            }
        }
        let before = tvals(&h.positions);
        let e0 = target.evals.load(Ordering::Relaxed);
        mcmc_sim::trace::start();
        let _ = mcmc_sim::sim::take_last_panic();
        let r = std::panic::catch_unwind(std::panic::AssertUnwindSafe(|| h.step()));
        let ev = mcmc_sim::trace::stop();
        if r.is_err() {
            let m = mcmc_sim::sim::take_last_panic().unwrap_or_default();
            let loc = m.rsplit(" @ ").next().unwrap_or("").to_string();
            o.violate("panic", &format!("{site}:panic@{loc}"), m);
            break;
        }
        let evals = target.evals.load(Ordering::Relaxed) - e0;
        let after = tvals(&h.positions);
        let get = |role: &str| ev.iter().find(|e| e.role == role).map(|e| e.vals.clone());
        let (Some(pos0), Some(mom), Some(lp0), Some(ppos), Some(pmom), Some(lp1), Some(us), Some(acc)) = (get("hmc_pos0"), get("hmc_momentum"), get("hmc_logp0"), get("hmc_prop_pos"), get("hmc_prop_mom"), get("hmc_logp1"), get("hmc_u"), get("hmc_accept")) else {
            o.harness_error = Some("HMC draw trace incomplete (hook H5 missing?)".into());
            return o;
        };
        o.work += nc as u64;
        if pos0.iter().zip(before.iter()).any(|(a, b)| a.to_bits() != b.to_bits()) {
            o.violate("trace_inconsistent", &format!("{site}:start-position"), "the step did not start from the sampler's positions".into());
            break;
        }
        // (the number of target evaluations is NOT judged: the property fixes the trajectory, not how
        // often the target is evaluated along it — an implementation may legitimately reuse the last
        // in-loop evaluation; the count is only reported)
        o.count("probe_steps_with_L_plus_2_evaluations", (evals == l as u64 + 2) as u64);
        for c in 0..nc {
            let x = &pos0[c * d..(c + 1) * d];
            let p = &mom[c * d..(c + 1) * d];
            let xp = &ppos[c * d..(c + 1) * d];
            let pp = &pmom[c * d..(c + 1) * d];
            let new = &after[c * d..(c + 1) * d];
            let old = &before[c * d..(c + 1) * d];
            let moved_flag = acc[c] != 0.0;
            // (iii) structural: new row = traced proposal bitwise if moved, previous row bitwise if not
            let is_prop = new.iter().zip(xp.iter()).all(|(a, b)| a.to_bits() == b.to_bits());
            let is_old = new.iter().zip(old.iter()).all(|(a, b)| a.to_bits() == b.to_bits());
            if moved_flag && !is_prop {
                o.violate("not_selected", &format!("{site}:accepted-row-is-not-the-proposal"), format!("step {step} chain {c}: accepted but the new position {new:?} is not the proposal {xp:?}"));
                break;
            }
            if !moved_flag && !is_old {
                o.violate("not_kept", &format!("{site}:rejected-row-changed"), format!("step {step} chain {c}: rejected but the position changed from {old:?} to {new:?}"));
                break;
            }
            // (i) proposal vs reference integrator, condition-aware
            let (rx, rp) = ref_leapfrog(&target, x, p, eps_used, l);
            let (amp, gain) = amplification(&target, x, p, eps_used, l, eps_b);
            let scale = maxabs(&rx).max(maxabs(&rp)).max(maxabs(x)).max(1.0);
            // three parts: amplified input rounding (shadow trajectories), accumulated rounding of the
            // updates, and the backend's own error in evaluating the gradient, which enters the momentum
            // with eps and the position with eps^2 at every step and is amplified by the remaining steps.
            // The f32 NdArray backend divides with an approximate, alignment-dependent reciprocal: the
            // gradient of log() was observed to vary by 3e-5 relative between two evaluations of the same
            // input in one process, hence the large f32 coefficient.
            let gmax = ref_leapfrog_gmax(&target, x, p, eps_used, l);
            let gcoef = if eps_b > 1e-10 { 8192.0 } else { 2048.0 };
            let tol = 256.0 * (l as f64 + 1.0) * amp + 256.0 * eps_b * scale * (l as f64 + 1.0) + gcoef * eps_b * (gmax + 1.0) * eps_used.abs() * (1.0 + eps_used.abs()) * (l as f64 + 1.0) * gain;
            // chaotic trajectories (perturbations grow by more than 1000 x): "up to rounding" cannot be
            // decided there; counted, not judged
            let chaotic = gain > 1e3;
            // beyond the square root of the backend's largest number squares overflow in the backend
            // even where the f64 reference is finite: treated as "reference overflowed"
            let big = if eps_b > 1e-10 { 1e17 } else { 1e150 };
            let ref_finite = rx.iter().chain(rp.iter()).all(|v| v.is_finite() && v.abs() < big) && target.logp(&rx).is_finite() && target.logp(&rx).abs() < big;
            let lp1_ref = target.logp(&rx);
            if decision_only {
                o.count("probe_row_judged_by_decision_only", 1);
            } else if (l >= 1 && target.grad(x).iter().any(|v| v.is_nan())) || lp0[c].is_nan() {
                // no trajectory starts here (undefined force) or H(x) is undefined: the row must stay
                o.count("probe_row_without_defined_trajectory_or_energy", 1);
                if moved_flag {
                    o.violate("moved_without_trajectory", &format!("{site}:moved-although-gradient-or-energy-at-x-is-NaN"), format!("step {step} chain {c}: x = {x:?} has gradient {:?} / log-density {} ({:?}); `ln u <= H - H'` cannot hold, yet the row moved to {:?}", target.grad(x), lp0[c], target.kind, &after[c * d..(c + 1) * d]));
                    break;
                }
            } else if !ref_finite {
                o.count("probe_reference_overflowed", 1);
                // only "non-finite or rejected" is required
                if moved_flag && !(xp.iter().all(|v| v.is_finite()) && lp1[c].is_finite()) {
                    o.violate("moved_to_nonfinite", &format!("{site}:accepted-non-finite-proposal"), format!("step {step} chain {c}: accepted a proposal {xp:?} with log-density {}", lp1[c]));
                    break;
                }
            } else if tol < 0.05 * scale && !chaotic {
                let ex = maxdiff(&rx, xp);
                let ep = maxdiff(&rp, pp);
                if ex > tol || ep > tol {
                    let key = if prev_rejected[c] { format!("{site}:proposal-after-rejection") } else { format!("{site}:proposal-differs-from-L-leapfrog-steps") };
                    o.violate("proposal_mismatch", &key, format!("step {step} chain {c} ({:?}, d={d}, eps={eps_used}, L={l}): proposal {xp:?} / momentum {pp:?} but {l} velocity-Verlet steps from (x={x:?}, p={p:?}) give {rx:?} / {rp:?} (error {ex:e}/{ep:e}, tolerance {tol:e})", target.kind));
                    break;
                }
                // traced log-densities vs the analytic ones
                let lp0_ref = target.logp(x);
                let lp_tol = 64.0 * (target.logp(&perturb(x, 4.0 * eps_b, 23)) - lp0_ref).abs() + 512.0 * eps_b * (lp0_ref.abs() + 1.0);
                if (lp0[c] - lp0_ref).abs() > lp_tol {
                    o.violate("logp_mismatch", &format!("{site}:log-density-at-start"), format!("step {step} chain {c}: traced log p(x) = {} but analytic {}", lp0[c], lp0_ref));
                    break;
                }
                o.count("probe_rows_judged_against_reference", 1);
            } else {
                o.count("not_judged_ill_conditioned", 1);
            }
            // (ii) decision from the traced quantities with the property's formula
            let hcur = -lp0[c] + 0.5 * p.iter().map(|v| v * v).sum::<f64>();
            let hprop = -lp1[c] + 0.5 * pp.iter().map(|v| v * v).sum::<f64>();
            let dh = hcur - hprop;
            let lnu = us[c].ln();
            let mag = lp0[c].abs() + lp1[c].abs() + p.iter().map(|v| v * v).sum::<f64>() + pp.iter().map(|v| v * v).sum::<f64>() + 1.0;
            let delta = 64.0 * eps_b * mag;
            if dh.is_nan() {
                o.count("probe_energy_difference_nan", 1);
                if moved_flag {
                    o.violate("accepted_nan_energy", &format!("{site}:accepted-NaN-energy-difference"), format!("step {step} chain {c}: energy difference is NaN but the row moved"));
                    break;
                }
            } else if lnu <= dh - delta && !moved_flag {
                o.violate("wrong_reject", &format!("{site}:rejected-although-lnu<=dH"), format!("step {step} chain {c}: ln u = {lnu} <= H - H' = {dh} (margin {delta:e}) but the row stayed"));
                break;
            } else if lnu >= dh + delta && moved_flag {
                o.violate("wrong_accept", &format!("{site}:accepted-although-lnu>dH"), format!("step {step} chain {c}: ln u = {lnu} > H - H' = {dh} (margin {delta:e}) but the row moved"));
                break;
            } else if (lnu - dh).abs() < delta {
                o.count("ambiguous_decision_inside_margin", 1);
            }
            // energy of the reference: H' consistent with the traced one (catches a wrong kinetic term only
            // through the decision above; here the potential term)
            if !decision_only && ref_finite && tol < 0.05 * scale && !chaotic {
                let dlp = (lp1[c] - lp1_ref).abs();
                let lp_tol = 64.0 * (target.logp(&perturb(&rx, 4.0 * eps_b, 29)) - lp1_ref).abs() + 64.0 * maxabs(&target.grad(&rx)) * tol + 512.0 * eps_b * (lp1_ref.abs() + 1.0);
                if dlp > lp_tol {
                    o.violate("logp_mismatch", &format!("{site}:log-density-at-proposal"), format!("step {step} chain {c}: traced log p(x') = {} but analytic {} (tolerance {lp_tol:e})", lp1[c], lp1_ref));
                    break;
                }
            }
            o.count("probe_rejections", (!moved_flag) as u64);
            o.count("probe_step_after_rejection", prev_rejected[c] as u64);
            prev_rejected[c] = !moved_flag;
            hash = mix(hash, mix(us[c].to_bits(), moved_flag as u64));
        }
        if !o.violations.is_empty() {
            break;
        }
        if ws && samples.len() < 2 {
            samples.push(json!({"step": step, "x0": &pos0[..d], "p0": &mom[..d], "proposal": &ppos[..d], "u": us[0], "accepted": acc[0]}));
        }
        // reversibility of the integrator (last step, first chain): from (x', -p') back to (x, -p)
        if step + 1 == steps && l > 0 {
            let dev = h.positions.device();
            let xt = Tensor::<B, 2>::from_data(TensorData::new(ppos.clone(), [nc, d]), &dev);
            let pt = Tensor::<B, 2>::from_data(TensorData::new(pmom.iter().map(|v| -v).collect::<Vec<f64>>(), [nc, d]), &dev);
            let r = std::panic::catch_unwind(std::panic::AssertUnwindSafe(|| h.verif_leapfrog(xt, pt)));
            if let Ok((bx, bp, _)) = r {
                let bx = tvals(&bx);
                let bp = tvals(&bp);
                for c in 0..nc {
                    let x = &pos0[c * d..(c + 1) * d];
                    let p = &mom[c * d..(c + 1) * d];
                    let xp = &ppos[c * d..(c + 1) * d];
                    let pp = &pmom[c * d..(c + 1) * d];
                    if !xp.iter().chain(pp.iter()).all(|v| v.is_finite()) {
                        continue;
                    }
                    let negp: Vec<f64> = pp.iter().map(|v| -v).collect();
                    let (rx, rp) = ref_leapfrog(&target, xp, &negp, eps_used, l);
                    let (amp, gain_back) = amplification(&target, xp, &negp, eps_used, l, eps_b);
                    let (_, gain_fwd) = amplification(&target, x, p, eps_used, l, eps_b);
                    let gain = gain_back.max(gain_fwd);
                    let scale = maxabs(x).max(maxabs(p)).max(maxabs(xp)).max(1.0);
                    let goal = maxabs(x).max(maxabs(p)).max(1.0); // what the way back has to reproduce
                    let gmax = ref_leapfrog_gmax(&target, xp, &negp, eps_used, l);
                    let gcoef = if eps_b > 1e-10 { 32768.0 } else { 8192.0 };
                    // forward error is also present in (x', p'): the way back amplifies it once more
                    let tol = 512.0 * (l as f64 + 1.0) * amp + 1024.0 * eps_b * scale * (l as f64 + 1.0) * gain + gcoef * eps_b * (gmax + 1.0) * eps_used.abs() * (1.0 + eps_used.abs()) * (l as f64 + 1.0) * gain;
                    if gain > 1e3 {
                        o.count("not_judged_ill_conditioned", 1);
                        continue;
                    }
                    let big = if eps_b > 1e-10 { 1e17 } else { 1e150 };
                    if !(tol < 0.05 * goal) || !rx.iter().chain(rp.iter()).all(|v| v.is_finite() && v.abs() < big) {
                        o.count("not_judged_ill_conditioned", 1);
                        continue;
                    }
                    let ex = maxdiff(&bx[c * d..(c + 1) * d], x);
                    let ep = maxdiff(&bp[c * d..(c + 1) * d].iter().map(|v| -v).collect::<Vec<f64>>(), p);
                    // compare with the reference's own return error as well (ill-conditioned trajectories)
                    let ref_back = maxdiff(&rx, x).max(maxdiff(&rp.iter().map(|v| -v).collect::<Vec<f64>>(), p));
                    if ex > tol + 4.0 * ref_back || ep > tol + 4.0 * ref_back {
                        o.violate("not_reversible", &format!("{site}:integrator-not-reversible"), format!("chain {c}: integrating from (x', -p') returns to {:?} / {:?} instead of (x, -p) = {x:?} / {:?} (error {ex:e}/{ep:e}, tolerance {tol:e})", &bx[c * d..(c + 1) * d], &bp[c * d..(c + 1) * d], p.iter().map(|v| -v).collect::<Vec<f64>>()));
                        break;
                    }
                    o.count("probe_reversibility_checked", 1);
                }
            }
        }
    }
    // (iv) rows never influence one another: same seed (hence the same momenta and acceptance
    // draws), one row's start perturbed, one step: every other row must come out the same. Not
    // compared bitwise: the backend's vectorised kernels may sum in a different order when the
    // buffers of the second run are aligned differently (observed: last-bit differences that vanish
    // in a fresh process); a real leak between rows (a reduction over the batch axis, a blend with
    // a batch mean) changes the other rows by far more than a few hundred ulps.
    if o.violations.is_empty() && nc >= 2 {
        let victim = (pu(params, "hseed") % nc as u64) as usize;
        let mut init2 = init.clone();
        for v in init2[victim].iter_mut() {
            *v = *v + T::from(0.37).unwrap();
        }
        let run1 = |init: Vec<Vec<T>>| -> Option<Vec<f64>> {
            let mut hh = HMC::<T, B, GTarget>::new(target.clone(), init, eps_t0, l0).set_seed(pu(params, "hseed"));
            let r = std::panic::catch_unwind(std::panic::AssertUnwindSafe(|| hh.step()));
            r.ok().map(|_| tvals(&hh.positions))
        };
        if let (Some(a), Some(b)) = (run1(init.clone()), run1(init2)) {
            for c in 0..nc {
                if c == victim {
                    continue;
                }
                let (ra, rb) = (&a[c * d..(c + 1) * d], &b[c * d..(c + 1) * d]);
                if !ra.iter().chain(rb.iter()).all(|v| v.is_finite()) {
                    continue;
                }
                let start: Vec<f64> = init[c].iter().map(|v| num_traits::ToPrimitive::to_f64(v).unwrap()).collect();
                // either both runs kept the start (bitwise) or both moved to (nearly) the same point.
                // "Nearly": the f32 backend's gradient is not even repeatable for identical inputs
                // (approximate reciprocal, see above: 3e-5 relative), and the trajectory amplifies that
                // by its gain; chaotic rows are skipped. A real leak between rows is of order one.
                let kept = |r: &[f64]| r.iter().zip(start.iter()).all(|(x, y)| x.to_bits() == y.to_bits());
                let sc = maxabs(ra).max(maxabs(&start)).max(1.0);
                let mom_c: Vec<f64> = vec![1.0; d]; // representative momentum scale for the gain estimate
                let (_, gain) = amplification(&target, &start, &mom_c, num_traits::ToPrimitive::to_f64(&eps_t0).unwrap(), l0, eps_b);
                if gain > 1e3 {
                    o.count("row_independence_chaotic_row_skipped", 1);
                    continue;
                }
                let noise = if eps_b > 1e-10 { 1e-3 } else { 1e-9 };
                if kept(ra) == kept(rb) && maxdiff(ra, rb) > (noise * gain).max(1e-2) * sc {
                    o.violate("rows_interact", &format!("{site}:rows-influence-one-another"), format!("changing the start of chain {victim} changed the result of chain {c} from {ra:?} to {rb:?} (same momenta and acceptance draws)"));
                    break;
                }
                if maxdiff(ra, rb) > 0.0 {
                    o.count("row_independence_rounding_level_difference", 1);
                }
            }
            o.count("probe_row_independence_checked", 1);
            o.work += 2 * nc as u64;
        }
    }
    o.count("probe_L_zero", (l == 0) as u64);
    o.count("probe_unstable_step_size", (eps > 1.0) as u64);
    o.hash = mix(hash, str_hash(&params.to_string()));
    o.nontrivial = steps >= 1;
    if ws {
        o.sample = Some(json!({"target": target.describe(), "backend": name, "n_chains": nc, "eps": eps_used, "L": l, "steps": samples}));
    }
    o
}

struct HmcSteps;
impl Scenario for HmcSteps {
    fn recheckable(&self, p: &Value) -> bool {
        // f32 gradients of the NdArray backend are not repeatable bit for bit (see Scenario::recheckable)
        ps(p, "float") != "f32"
    }
    fn name(&self) -> &'static str {
        "hmc_steps"
    }
    fn runs(&self, tier: Tier) -> u64 {
        tier.pick(8000, 250_000)
    }
    fn generate(&self, g: &mut Gen, _t: Tier, _i: u64) -> Value {
        let l = match g.range(0, 9) {
            0 => 0,
            1..=6 => g.usize(1, 8),
            7 | 8 => g.usize(9, 24),
            _ => g.usize(25, 64),
        };
        let eps = match g.range(0, 9) {
            0 => g.log_uniform(1.0, 1e3), // deliberately unstable
            1 | 2 => g.log_uniform(1e-4, 1e-2),
            _ => g.log_uniform(1e-2, 0.5),
        };
        json!({"float": *g.pick(&["f64", "f64", "f32"]), "gseed": g.u64(), "hseed": g.u64(), "n_chains": g.usize(1, 32).min(if l > 24 { 4 } else { 32 }), "L": l, "eps": fbits(eps), "steps": g.usize(1, 10), "start_scale": fbits(g.log_uniform(0.1, 3.0)), "retune": g.bool(1, 3), "special": *g.pick(&["", "", "", "", "", "", "kink", "support", "boxinf"])})
    }
    fn execute(&self, p: &Value, ws: bool) -> Outcome {
        if ps(p, "float") == "f32" {
            hmc_steps::<f32, BF32>(p, ws, f32::EPSILON as f64, "f32")
        } else {
            hmc_steps::<f64, BF64>(p, ws, f64::EPSILON, "f64")
        }
    }
    fn shrink(&self, p: &Value) -> Vec<Value> {
        let mut out = vec![];
        shrink_int(p, "steps", 1, &mut out);
        shrink_int(p, "n_chains", 1, &mut out);
        shrink_int(p, "L", 0, &mut out);
        out
    }
    fn rule(&self) -> &'static str {
        "one run = one generated target (Gaussians d 1..16 with random SPD precision, the library's Gaussian/Rosenbrock targets, Student-t, quartic, funnel), 1..32 chains, eps 1e-4..1e3, L 0..64, f32/f64 backend, a history of 1..10 steps; every row of every step compared with the f64 reference integrator and the Metropolis rule, plus reversibility and row independence; distinct = hash of (acceptance draws, decisions, parameters)"
    }
    fn components(&self) -> Value {
        json!({"real": ["HMC::step", "HMC::leapfrog", "burn autodiff (NdArray f32/f64)", "library targets"], "stub": ["dual targets written by the harness (burn + analytic f64)"]})
    }
}


// ---- fault: the user's target code panics at one of the L + 2 evaluations of a step ---------------
struct TargetPanics;
impl Scenario for TargetPanics {
    fn name(&self) -> &'static str {
        "target_panics"
    }
    fn runs(&self, tier: Tier) -> u64 {
        tier.pick(600, 40_000)
    }
    fn generate(&self, g: &mut Gen, _t: Tier, _i: u64) -> Value {
        let l = g.usize(0, 8);
        json!({"gseed": g.u64(), "hseed": g.u64(), "d": g.usize(1, 4), "n_chains": g.usize(1, 6), "L": l, "eps": fbits(g.log_uniform(0.02, 0.6)), "steps_before": g.usize(0, 3), "fail_eval": g.usize(1, l + 3), "steps_after": g.usize(1, 3)})
    }
    fn execute(&self, p: &Value, _ws: bool) -> Outcome {
        let mut o = Outcome::default();
        let mut g = Gen::new(pu(p, "gseed"));
        let (d, nc, l) = (pus(p, "d"), pus(p, "n_chains"), pus(p, "L"));
        let target = GTarget::gauss(&mut g, d, 4.0);
        let init: Vec<Vec<f64>> = (0..nc).map(|_| (0..d).map(|_| g.normal()).collect()).collect();
        let mut h = HMC::<f64, BF64, GTarget>::new(target.clone(), init, pf(p, "eps"), l).set_seed(pu(p, "hseed"));
        o.hash = str_hash(&p.to_string());
        let _ = mcmc_sim::sim::take_last_panic();
        for _ in 0..pus(p, "steps_before") {
            h.step();
        }
        let bits = |h: &HMC<f64, BF64, GTarget>| -> Vec<u64> { h.positions.to_data().convert::<f64>().to_vec::<f64>().unwrap().iter().map(|v| v.to_bits()).collect() };
        let before = bits(&h);
        // arm through the public `target` field: evaluation k of the next step fails
        h.target.crash_at = target.evals.load(Ordering::Relaxed) + pus(p, "fail_eval") as u64;
        let r = std::panic::catch_unwind(std::panic::AssertUnwindSafe(|| h.step()));
        h.target.crash_at = u64::MAX;
        let fired = r.is_err();
        o.count("fault_target_code_panicked", fired as u64);
        o.count("probe_fault_at_the_last_evaluation_of_the_step", (fired && pus(p, "fail_eval") == l + 2) as u64);
        o.nontrivial = fired;
        if fired {
            let m = mcmc_sim::sim::take_last_panic().unwrap_or_default();
            if !m.contains("VERIF-INJECTED") {
                let loc = m.rsplit(" @ ").next().unwrap_or("").to_string();
                o.violate("panic", &format!("HMC::step:panic@{loc}"), m);
                return o;
            }
            // the Metropolis test of that step never took place: every row is where it was
            if bits(&h) != before {
                o.violate("state_changed_without_decision", "HMC::step:positions-changed-by-a-step-that-failed-before-its-decision", format!("target evaluation {} of {} of the step failed (caught by the caller) and the positions changed (L = {l}, {nc} chains)", pus(p, "fail_eval"), l + 2));
                return o;
            }
        }
        for _ in 0..pus(p, "steps_after") {
            let r = std::panic::catch_unwind(std::panic::AssertUnwindSafe(|| h.step()));
            if r.is_err() {
                let m = mcmc_sim::sim::take_last_panic().unwrap_or_default();
                let loc = m.rsplit(" @ ").next().unwrap_or("").to_string();
                o.violate("panic", &format!("HMC::step(after-fault):panic@{loc}"), m);
                return o;
            }
        }
        o.work = 1;
        o
    }
    fn rule(&self) -> &'static str {
        "one run = an HMC batch (Gaussian, d 1..4, 1..6 chains, L 0..8) in whose step after 0..3 ordinary steps the target's code panics at evaluation k (k = 1..L+3, so also the last one of the step and one beyond it), the caller catching it; the step's Metropolis test never took place, so every row must be where it was, bit for bit, and later steps must work; non-trivial = the fault fired"
    }
    fn components(&self) -> Value {
        json!({"real": ["HMC::step"], "stub": ["dual Gaussian target with an injected one-shot panic"]})
    }
}
