//! C08 — chains of one sampler are driven by distinct random streams.

use super::*;
use crate::zoo::{BF32, BF64};
use mini_mcmc::core::{ChainRunner, MarkovChain};
use mini_mcmc::distributions::{DiffableGaussian2D, Gaussian2D, IsotropicGaussian, Proposal};
use mini_mcmc::hmc::HMC;
use mini_mcmc::metropolis_hastings::MetropolisHastings;
use mini_mcmc::nuts::NUTS;
use ndarray::{arr1, arr2};
use rand::rngs::SmallRng;
use rand::{Rng, RngCore, SeedableRng};

pub fn def() -> PropertyDef {
    PropertyDef {
        id: "C08",
        level: "exploration",
        scenarios: vec![Box::new(MhStreams), Box::new(GradStreams), Box::new(ConstructionSweep)],
        assumptions: vec![
            "default construction takes its seeds from OS entropy, which is behind no seam: the values differ from run to run, the verdict does not (equal streams are a structural defect that shows for every entropy value; unequal ones collide with probability 2^-64)",
            "streams are observed through the public fields (chains[i].proposal, chains[i].rng), a user-defined proposal whose generator is public, and the traced momenta of HMC/NUTS",
        ],
    }
}

/// user-defined seedable proposal with a public generator
#[derive(Clone, Debug)]
pub struct SpyProposal {
    pub rng: SmallRng,
    pub std: f64,
}
impl Proposal<f64, f64> for SpyProposal {
    fn sample(&mut self, cur: &[f64]) -> Vec<f64> {
        cur.iter()
            .map(|x| {
                let u1: f64 = 1.0 - self.rng.random::<f64>();
                let u2: f64 = self.rng.random();
                x + self.std * (-2.0 * u1.ln()).sqrt() * (2.0 * std::f64::consts::PI * u2).cos()
            })
            .collect()
    }
    fn logp(&self, from: &[f64], to: &[f64]) -> f64 {
        -from.iter().zip(to).map(|(a, b)| (a - b) * (a - b)).sum::<f64>() / (2.0 * self.std * self.std)
    }
    fn set_seed(mut self, seed: u64) -> Self {
        self.rng = SmallRng::seed_from_u64(seed);
        self
    }
}

fn first_pair_equal<T: PartialEq>(xs: &[T]) -> Option<(usize, usize)> {
    for i in 0..xs.len() {
        for j in i + 1..xs.len() {
            if xs[i] == xs[j] {
                return Some((i, j));
            }
        }
    }
    None
}

struct MhStreams;
impl Scenario for MhStreams {
    fn name(&self) -> &'static str {
        "mh_streams"
    }
    fn runs(&self, tier: Tier) -> u64 {
        tier.pick(8000, 300_000)
    }
    fn generate(&self, g: &mut Gen, _t: Tier, _i: u64) -> Value {
        let nc = g.usize(2, 64);
        json!({"n_chains": nc, "seeded": g.bool(2, 3), "seed": crate::props::c07::special_seed(g, nc).to_string(), "proposal": *g.pick(&["isotropic", "spy"]), "user_seeded_proposal": g.bool(1, 2), "steps": g.usize(10, 40), "pre_sampled": g.bool(1, 3), "pre_draws": g.usize(1, 3), "lag_check": nc <= 4 || g.bool(1, 12)})
    }
    fn execute(&self, p: &Value, ws: bool) -> Outcome {
        let mut o = Outcome::default();
        let nc = pus(p, "n_chains");
        let seeded = pb(p, "seeded");
        let seed = pu(p, "seed");
        let how = if seeded { "seeded" } else { "default" };
        let target = Gaussian2D { mean: arr1(&[0.0f64, 0.0]), cov: arr2(&[[1.0, 0.3], [0.3, 2.0]]) };
        let init: Vec<Vec<f64>> = vec![vec![0.25, -0.5]; nc]; // every chain starts at the same state
        let x = vec![0.25f64, -0.5];
        let steps = pus(p, "steps");
        o.hash = str_hash(&p.to_string());
        o.nontrivial = true;
        o.work = (nc * steps) as u64;
        if ps(p, "proposal") == "isotropic" {
            let mut prop = IsotropicGaussian::<f64>::new(0.8);
            if pb(p, "user_seeded_proposal") {
                prop = prop.set_seed(7);
            }
            // a proposal object that has been used before it is handed to the sampler (whatever it buffers
            // internally must not end up in every chain)
            if p.get("pre_sampled").and_then(|v| v.as_bool()).unwrap_or(false) {
                for _ in 0..p.get("pre_draws").and_then(|v| v.as_u64()).unwrap_or(1) {
                    let _ = prop.sample(&x);
                }
                o.count("probe_proposal_used_before_construction", 1);
            }
            let mut s = MetropolisHastings::new(target, prop, init);
            if seeded {
                s = s.seed(seed);
            }
            // proposal noise from the common state, first 8 proposals of every chain (on a clone)
            let mut probe = s.clone();
            let noise: Vec<Vec<u64>> = probe.chains.iter_mut().map(|c| (0..8).flat_map(|_| c.proposal.sample(&x)).map(|v| v.to_bits()).collect()).collect();
            if let Some((i, j)) = first_pair_equal(&noise) {
                o.violate("same_proposal_stream", &format!("MH[{how}]:chains-share-proposal-stream"), format!("{nc} chains ({how}{}): chains {i} and {j} propose identical candidates from the same state, e.g. {:?}", if seeded { format!(", seed {seed}") } else { String::new() }, f64::from_bits(noise[i][0])));
            }
            let acc: Vec<Vec<u64>> = probe.chains.iter_mut().map(|c| (0..8).map(|_| c.rng.next_u64()).collect()).collect();
            if let Some((i, j)) = first_pair_equal(&acc) {
                o.violate("same_acceptance_stream", &format!("MH[{how}]:chains-share-acceptance-stream"), format!("{nc} chains ({how}): chains {i} and {j} have identical acceptance generators"));
            }
            // trajectories from the common start
            match s.run(steps, 0) {
                Err(e) => o.violate("run_err", "MH:run-Err", e.to_string()),
                Ok(arr) => {
                    let rows: Vec<Vec<u64>> = (0..nc).map(|c| arr.index_axis(ndarray::Axis(0), c).iter().map(|v| v.to_bits()).collect()).collect();
                    if let Some((i, j)) = first_pair_equal(&rows) {
                        // identical trajectories are conclusive only if the chains moved
                        let moved = rows[i].chunks(2).any(|r| r != [x[0].to_bits(), x[1].to_bits()]);
                        if moved {
                            o.violate("same_trajectory", &format!("MH[{how}]:identical-trajectories"), format!("{nc} chains ({how}): chains {i} and {j} started at the same state follow bit-identical trajectories over {steps} steps"));
                        }
                    }
                }
            }
        } else {
            let mut prop = SpyProposal { rng: SmallRng::seed_from_u64(3), std: 0.8 };
            if pb(p, "user_seeded_proposal") {
                prop = prop.set_seed(seed ^ 0xabcdef);
            }
            let mut s = MetropolisHastings::new(target, prop, init);
            if seeded {
                s = s.seed(seed);
            }
            for (i, c) in s.chains.iter().enumerate() {
                if c.proposal.rng == c.rng {
                    o.violate("acceptance_equals_proposal_generator", &format!("MH[{how}]:acceptance-and-proposal-generator-identical"), format!("chain {i} ({how}): the acceptance generator is in the same state as the proposal generator"));
                    break;
                }
            }
            let spies: Vec<SmallRng> = s.chains.iter().map(|c| c.proposal.rng.clone()).collect();
            if let Some((i, j)) = first_pair_equal(&spies) {
                o.violate("same_proposal_stream", &format!("MH[{how}]:chains-share-proposal-stream"), format!("{nc} chains ({how}, user-defined seedable proposal): chains {i} and {j} hold proposal generators in the same state"));
            }
            let accs: Vec<SmallRng> = s.chains.iter().map(|c| c.rng.clone()).collect();
            if let Some((i, j)) = first_pair_equal(&accs) {
                o.violate("same_acceptance_stream", &format!("MH[{how}]:chains-share-acceptance-stream"), format!("chains {i} and {j} have identical acceptance generators"));
            }
            // "no two chains consume the same random stream", whatever they use it for: the proposal generator of
            // one chain must not be the acceptance generator of another either (all 2n generators pairwise distinct)
            let all: Vec<SmallRng> = spies.iter().cloned().chain(accs.iter().cloned()).collect();
            if o.violations.is_empty() {
                if let Some((i, j)) = first_pair_equal(&all) {
                    if i < nc && j >= nc && j - nc != i {
                        o.violate("same_stream_across_roles", &format!("MH[{how}]:proposal-generator-of-one-chain-is-acceptance-generator-of-another"), format!("{nc} chains ({how}, seed {seed}): the proposal generator of chain {i} is in the same state as the acceptance generator of chain {}", j - nc));
                    }
                }
            }
            // streams that are blocks of ONE base stream overlap once a chain has drawn a block's length: the
            // acceptance generator of chain i, advanced by 2^k draws (k = 8..21), must not be the initial
            // generator of another chain
            if o.violations.is_empty() && seeded && nc <= 6 && p.get("lag_check").and_then(|v| v.as_bool()).unwrap_or(false) {
                o.count("probe_lagged_stream_overlap_checked", 1);
                'outer: for i in 0..nc {
                    let mut r = accs[i].clone();
                    let mut drawn = 0u64;
                    for k in 8..=21u32 {
                        while drawn < (1u64 << k) {
                            r.next_u64();
                            drawn += 1;
                        }
                        if let Some(j) = (0..nc).find(|j| *j != i && accs[*j] == r) {
                            o.violate("same_stream_at_a_lag", &format!("MH[{how}]:acceptance-streams-overlap-at-a-lag"), format!("{nc} chains (seed {seed}): the acceptance generator of chain {i} reaches the initial state of chain {j}'s after 2^{k} draws: chain {i} replays chain {j}'s acceptance draws from there on"));
                            break 'outer;
                        }
                    }
                }
            }
            // acceptance draws must not be copies of the values that produced the proposal:
            // compare the next raw words of both generators of every chain
            for (i, c) in s.chains.iter().enumerate() {
                let a: Vec<u64> = {
                    let mut r = c.rng.clone();
                    (0..4).map(|_| r.next_u64()).collect()
                };
                let b: Vec<u64> = {
                    let mut r = c.proposal.rng.clone();
                    (0..4).map(|_| r.next_u64()).collect()
                };
                if a == b {
                    o.violate("acceptance_equals_proposal_generator", &format!("MH[{how}]:acceptance-and-proposal-generator-identical"), format!("chain {i}: acceptance draws replicate the proposal generator's values"));
                    break;
                }
            }
            // stepping the real chains keeps them apart
            let mut firsts: Vec<Vec<u64>> = vec![];
            for c in s.chains.iter_mut() {
                let mut tr = vec![];
                for _ in 0..steps {
                    tr.extend(c.step().iter().map(|v| v.to_bits()));
                }
                firsts.push(tr);
            }
            if let Some((i, j)) = first_pair_equal(&firsts) {
                let moved = firsts[i].chunks(2).any(|r| r != [x[0].to_bits(), x[1].to_bits()]);
                if moved {
                    o.violate("same_trajectory", &format!("MH[{how}]:identical-trajectories"), format!("chains {i} and {j} follow bit-identical trajectories"));
                }
            }
        }
        o.count(&format!("probe_{how}_construction"), 1);
        o.count("probe_chains_ge_32", (nc >= 32) as u64);
        if ws {
            o.sample = Some(json!({"n_chains": nc, "construction": how, "proposal": ps(p, "proposal")}));
        }
        o
    }
    fn shrink(&self, p: &Value) -> Vec<Value> {
        let mut out = vec![];
        shrink_int(p, "n_chains", 2, &mut out);
        shrink_int(p, "steps", 10, &mut out);
        out
    }
    fn rule(&self) -> &'static str {
        "one run = an MH sampler with 2..64 chains all started at one state, built with defaults or seeded (special seeds), with the library's or a user-defined seedable proposal; every pair of chains must differ in proposal noise, acceptance generator and trajectory, no chain's acceptance generator may equal its proposal generator, nor any chain's proposal generator another chain's acceptance generator; distinct = parameter hash"
    }
    fn components(&self) -> Value {
        json!({"real": ["MetropolisHastings::new / seed", "MHMarkovChain::step", "IsotropicGaussian"], "stub": ["SpyProposal (user-defined, public generator)"]})
    }
}

/// Construction-only sweep: a within-sampler coincidence of derived chain seeds (a seed space that is too
/// small, a hash that folds) shows up only after very many constructions. No transition is made: 64 chains
/// are built and seeded for every seed of a block of consecutive seeds, and the chains' acceptance and
/// proposal generators (public fields) must be pairwise distinct within each sampler.
struct ConstructionSweep;
impl Scenario for ConstructionSweep {
    fn name(&self) -> &'static str {
        "mh_construction_sweep"
    }
    fn runs(&self, tier: Tier) -> u64 {
        tier.pick(512, 8192)
    }
    fn generate(&self, g: &mut Gen, _tier: Tier, idx: u64) -> Value {
        // the first half of the blocks tiles 0.. upwards (small seeds are what users type), the rest is random
        let base = if idx % 2 == 0 { (idx / 2) * 32768 } else { g.u64() };
        json!({"base": base.to_string(), "count": 16384, "n_chains": 64})
    }
    fn execute(&self, p: &Value, _ws: bool) -> Outcome {
        let mut o = Outcome::default();
        let (base, count, nc) = (pu(p, "base"), pu(p, "count"), pus(p, "n_chains"));
        let target = Gaussian2D { mean: arr1(&[0.0f64, 0.0]), cov: arr2(&[[1.0, 0.0], [0.0, 1.0]]) };
        let init: Vec<Vec<f64>> = vec![vec![0.25, -0.5]; nc];
        let template = MetropolisHastings::new(target, SpyProposal { rng: SmallRng::seed_from_u64(3), std: 0.8 }, init);
        let mut keys: Vec<(u64, u64, usize)> = Vec::with_capacity(2 * nc);
        for k in 0..count {
            let seed = base.wrapping_add(k);
            let s = template.clone().seed(seed);
            keys.clear();
            for (i, c) in s.chains.iter().enumerate() {
                let (mut a, mut q) = (c.rng.clone(), c.proposal.rng.clone());
                keys.push((a.next_u64(), a.next_u64(), i));
                keys.push((q.next_u64(), q.next_u64(), nc + i));
            }
            keys.sort_unstable();
            for w in keys.windows(2) {
                if w[0].0 == w[1].0 && w[0].1 == w[1].1 {
                    let (i, j) = (w[0].2.min(w[1].2), w[0].2.max(w[1].2));
                    let gen_of = |x: usize| if x < nc { s.chains[x].rng.clone() } else { s.chains[x - nc].proposal.rng.clone() };
                    if gen_of(i) == gen_of(j) {
                        let name = |x: usize| if x < nc { format!("acceptance generator of chain {x}") } else { format!("proposal generator of chain {}", x - nc) };
                        let key = if i < nc && j < nc { "MH[seeded]:chains-share-acceptance-stream" } else if i >= nc { "MH[seeded]:chains-share-proposal-stream" } else { "MH[seeded]:acceptance-generator-equals-a-proposal-generator" };
                        o.violate("same_stream_at_construction", key, format!("{nc} chains, seed {seed}: the {} and the {} are in the same state", name(i), name(j)));
                        o.hash = str_hash(&p.to_string());
                        o.nontrivial = true;
                        return o;
                    }
                }
            }
            o.work += nc as u64;
        }
        o.count("probe_samplers_constructed", count);
        o.hash = str_hash(&p.to_string());
        o.nontrivial = true;
        o
    }
    fn shrink(&self, p: &Value) -> Vec<Value> {
        let mut out = vec![];
        let (base, count) = (pu(p, "base"), pu(p, "count"));
        if count > 1 {
            let h = count / 2;
            out.push(with(&with(p, "count", json!(h)), "base", json!(base.to_string())));
            out.push(with(&with(p, "count", json!(count - h)), "base", json!(base.wrapping_add(h).to_string())));
        }
        out
    }
    fn rule(&self) -> &'static str {
        "one run = 16384 consecutive sampler seeds (half of the blocks tile 0.. upwards, half start at random 64-bit values); for each a 64-chain MH sampler with a user-defined seedable proposal is built and seeded, no transition made; within each sampler all 128 generators (acceptance and proposal, public fields) must be pairwise distinct"
    }
    fn components(&self) -> Value {
        json!({"real": ["MetropolisHastings::new / seed / Clone", "Proposal::set_seed as called by the library"], "stub": ["SpyProposal (user-defined, public generator)"]})
    }
}

/// per chain: its acceptance draws over all traced steps of the run (`hmc_u` carries one value per chain)
fn acceptance_sequences(ev: &[mcmc_sim::trace::TraceEvent], nc: usize) -> Vec<Vec<u64>> {
    let mut us: Vec<Vec<u64>> = vec![vec![]; nc];
    for e in ev.iter().filter(|e| e.role == "hmc_u") {
        for (c, v) in e.vals.iter().enumerate().take(nc) {
            us[c].push(v.to_bits());
        }
    }
    if us.iter().all(|u| u.is_empty()) {
        return vec![];
    }
    us
}

struct GradStreams;
impl Scenario for GradStreams {
    fn name(&self) -> &'static str {
        "hmc_nuts_streams"
    }
    fn runs(&self, tier: Tier) -> u64 {
        tier.pick(800, 40_000)
    }
    fn generate(&self, g: &mut Gen, _t: Tier, _i: u64) -> Value {
        // 2..64 chains (a third of the runs above 32)
        let nc = if g.bool(1, 3) { g.usize(33, 64) } else { g.usize(2, 32) };
        if g.bool(1, 5) {
            // an HMC batch over a state of arbitrary dimension: 1..40, or at a size threshold named in the
            // sources (source-literal dictionary, t-1 / t / t+1, up to 5000), few chains
            let dim = match crate::core::dict_size(g, 1, 5000) {
                Some(d) if g.bool(2, 3) => d,
                _ => g.usize(1, 40),
            };
            let nc = g.usize(2, 5);
            return json!({"kind": *g.pick(&["hmc_nd_f32", "hmc_nd_f64"]), "dim": dim, "n_chains": nc, "seeded": g.bool(2, 3), "seed": crate::props::c07::special_seed(g, nc).to_string()});
        }
        if g.bool(1, 10) {
            // fault: the user's target code panics once during a NUTS run, the caller catches it and goes on
            let nc = g.usize(2, 8);
            return json!({"kind": "nuts_panic_f64", "n_chains": nc, "seeded": g.bool(2, 3), "seed": crate::props::c07::special_seed(g, nc).to_string(), "crash_eval": g.usize(3, 40 * nc)});
        }
        json!({"kind": *g.pick(&["hmc_f32", "hmc_f64", "nuts_f32", "nuts_f64"]), "n_chains": nc, "seeded": g.bool(2, 3), "seed": crate::props::c07::special_seed(g, nc).to_string(), "history": g.bool(1, 2)})
    }
    fn execute(&self, p: &Value, ws: bool) -> Outcome {
        let mut o = Outcome::default();
        let nc = pus(p, "n_chains");
        let seeded = pb(p, "seeded");
        let seed = pu(p, "seed");
        let how = if seeded { "seeded" } else { "default" };
        let kind = ps(p, "kind");
        o.hash = str_hash(&p.to_string());
        o.nontrivial = true;
        o.work = nc as u64 * 3;
        // rows of momenta actually used by the first transition(s), from the draw trace
        let mut mom_rows: Vec<Vec<u64>> = vec![];
        let mut traj: Vec<Vec<u64>> = vec![];
        let dim = p.get("dim").and_then(|v| v.as_u64()).unwrap_or(2) as usize;
        let history = p.get("history").and_then(|v| v.as_bool()).unwrap_or(false);
        o.count("probe_two_call_history", history as u64);
        mcmc_sim::trace::start();
        match kind {
            "nuts_panic_f64" => {
                use crate::gtargets::{GKind, GTarget};
                let mut t = GTarget::new(GKind::Quartic, 2);
                t.crash_at = pu(p, "crash_eval");
                // a burst of failures: several chains are interrupted in the same run
                t.crash_len = nc as u64;
                let mut s = NUTS::<f64, BF64, GTarget>::new(t, vec![vec![0.5f64, 0.5]; nc], 0.8);
                if seeded {
                    s = s.set_seed(seed);
                }
                let _ = mcmc_sim::sim::take_last_panic();
                let r = std::panic::catch_unwind(std::panic::AssertUnwindSafe(|| {
                    let _ = s.run(3, 2);
                }));
                let fired = r.is_err() && mcmc_sim::sim::take_last_panic().unwrap_or_default().contains("VERIF-INJECTED");
                o.count("fault_target_code_panicked", fired as u64);
                // whatever the interrupted update was doing: afterwards the chains still own distinct streams
                let rngs: Vec<SmallRng> = s.verif_chains().iter().map(|c| c.verif_rng().clone()).collect();
                if let Some((i, j)) = first_pair_equal(&rngs) {
                    o.violate("same_generator", &format!("NUTS[{how}]:chains-share-generator-after-a-caught-target-failure"), format!("{nc} chains ({how}): after the target's code failed during run() and the caller caught it, chains {i} and {j} hold generators in the same state"));
                }
                let r2 = std::panic::catch_unwind(std::panic::AssertUnwindSafe(|| crate::zoo::tensor_bits(&s.run(3, 0))));
                let _ = mcmc_sim::trace::stop();
                if let Ok((bits, shape)) = r2 {
                    traj = (0..shape[0]).map(|c| bits[c * shape[1] * shape[2]..(c + 1) * shape[1] * shape[2]].to_vec()).collect();
                }
            }
            "hmc_nd_f32" | "hmc_nd_f64" => {
                use crate::gtargets::{GKind, GTarget};
                let t = GTarget::new(GKind::Quartic, dim);
                let out = if kind == "hmc_nd_f32" {
                    let mut h = HMC::<f32, BF32, GTarget>::new(t, vec![vec![0.5f32; dim]; nc], 0.05, 2);
                    if seeded {
                        h = h.set_seed(seed);
                    }
                    crate::zoo::tensor_bits(&h.run(2, 0))
                } else {
                    let mut h = HMC::<f64, BF64, GTarget>::new(t, vec![vec![0.5f64; dim]; nc], 0.05, 2);
                    if seeded {
                        h = h.set_seed(seed);
                    }
                    crate::zoo::tensor_bits(&h.run(2, 0))
                };
                let ev = mcmc_sim::trace::stop();
                if let Some(m) = ev.iter().find(|e| e.role == "hmc_momentum") {
                    mom_rows = m.vals.chunks(dim).map(|r| r.iter().map(|v| v.to_bits()).collect()).collect();
                }
                let (bits, shape) = out;
                traj = (0..shape[0]).map(|c| bits[c * shape[1] * shape[2]..(c + 1) * shape[1] * shape[2]].to_vec()).collect();
                {
                    // the SEQUENCE of acceptance draws of every chain over the steps of the run (a single f32
                    // uniform has only 2^24 values: two of 64 independent chains share one every few thousand runs)
                    let us = acceptance_sequences(&ev, nc);
                    if let Some((i, j)) = first_pair_equal(&us) {
                        o.violate("same_acceptance_stream", &format!("HMC[{how}]:chains-share-acceptance-draw"), format!("chains {i} and {j} received the same acceptance draws in every step (dim {dim})"));
                    }
                }
                o.count("probe_hmc_dim_ge_1024", (dim >= 1024) as u64);
                o.count("probe_hmc_dim_ge_64", (dim >= 64) as u64);
            }
            "hmc_f32" | "hmc_f64" => {
                let out = if kind == "hmc_f32" {
                    let t = DiffableGaussian2D::new([0.0f32, 1.0], [[4.0, 2.0], [2.0, 3.0]]);
                    let mut h = HMC::<f32, BF32, _>::new(t, vec![vec![0.5f32, 0.5]; nc], 0.2, 4);
                    if seeded {
                        h = h.set_seed(seed);
                    }
                    crate::zoo::tensor_bits(&h.run(3, 0))
                } else {
                    let t = DiffableGaussian2D::new([0.0f64, 1.0], [[4.0, 2.0], [2.0, 3.0]]);
                    let mut h = HMC::<f64, BF64, _>::new(t, vec![vec![0.5f64, 0.5]; nc], 0.2, 4);
                    if seeded {
                        h = h.set_seed(seed);
                    }
                    crate::zoo::tensor_bits(&h.run(3, 0))
                };
                let ev = mcmc_sim::trace::stop();
                if let Some(m) = ev.iter().find(|e| e.role == "hmc_momentum") {
                    mom_rows = m.vals.chunks(2).map(|r| r.iter().map(|v| v.to_bits()).collect()).collect();
                }
                let (bits, shape) = out;
                traj = (0..shape[0]).map(|c| bits[c * shape[1] * shape[2]..(c + 1) * shape[1] * shape[2]].to_vec()).collect();
                // acceptance draws: the sequence over the steps of the run, per chain, pairwise distinct
                {
                    let us = acceptance_sequences(&ev, nc);
                    if let Some((i, j)) = first_pair_equal(&us) {
                        o.violate("same_acceptance_stream", &format!("HMC[{how}]:chains-share-acceptance-draw"), format!("chains {i} and {j} received the same acceptance draws in every step"));
                    }
                }
            }
            _ => {
                let (bits, shape, rngs_equal) = if kind == "nuts_f32" {
                    let t = DiffableGaussian2D::new([0.0f32, 1.0], [[4.0, 2.0], [2.0, 3.0]]);
                    let mut s = NUTS::<f32, BF32, _>::new(t, vec![vec![0.5f32, 0.5]; nc], 0.8);
                    if seeded {
                        s = s.set_seed(seed);
                    }
                    let rngs: Vec<SmallRng> = s.verif_chains().iter().map(|c| c.verif_rng().clone()).collect();
                    let mut eq = first_pair_equal(&rngs);
                    if history {
                        // a first call that makes no transition (the chains stay at their common start), then the judged run
                        let _ = s.run(1, 0);
                    }
                    let (b, sh) = crate::zoo::tensor_bits(&s.run(3, 1));
                    if history && eq.is_none() {
                        // the streams are still distinct after the second call has (re-)initialised the chains
                        let after: Vec<SmallRng> = s.verif_chains().iter().map(|c| c.verif_rng().clone()).collect();
                        eq = first_pair_equal(&after);
                    }
                    (b, sh, eq)
                } else {
                    let t = DiffableGaussian2D::new([0.0f64, 1.0], [[4.0, 2.0], [2.0, 3.0]]);
                    let mut s = NUTS::<f64, BF64, _>::new(t, vec![vec![0.5f64, 0.5]; nc], 0.8);
                    if seeded {
                        s = s.set_seed(seed);
                    }
                    let rngs: Vec<SmallRng> = s.verif_chains().iter().map(|c| c.verif_rng().clone()).collect();
                    let mut eq = first_pair_equal(&rngs);
                    if history {
                        // a first call that makes no transition (the chains stay at their common start), then the judged run
                        let _ = s.run(1, 0);
                    }
                    let (b, sh) = crate::zoo::tensor_bits(&s.run(3, 1));
                    if history && eq.is_none() {
                        // the streams are still distinct after the second call has (re-)initialised the chains
                        let after: Vec<SmallRng> = s.verif_chains().iter().map(|c| c.verif_rng().clone()).collect();
                        eq = first_pair_equal(&after);
                    }
                    (b, sh, eq)
                };
                let ev = mcmc_sim::trace::stop();
                if let Some((i, j)) = rngs_equal {
                    o.violate("same_generator", &format!("NUTS[{how}]:chains-share-generator"), format!("{nc} chains ({how}): chains {i} and {j} hold generators in the same state"));
                }
                // under real rayon the per-thread trace sink only sees the chains run on this thread; the
                // generator states above are the complete observation, momenta are a bonus
                mom_rows = ev.iter().filter(|e| e.role == "nuts_init_mom").map(|e| e.vals.iter().map(|v| v.to_bits()).collect()).collect();
                traj = (0..shape[0]).map(|c| bits[c * shape[1] * shape[2]..(c + 1) * shape[1] * shape[2]].to_vec()).collect();
            }
        }
        let fam = if kind.starts_with("hmc") { "HMC" } else { "NUTS" };
        if let Some((i, j)) = first_pair_equal(&mom_rows) {
            o.violate("same_momentum", &format!("{fam}[{how}]:chains-share-momentum"), format!("{nc} chains ({how}): two chains ({i}, {j}) received identical momenta (dim {dim})"));
        }
        if let Some((i, j)) = first_pair_equal(&traj) {
            let start: Vec<u64> = vec![0.5f64.to_bits(); dim];
            if traj[i].chunks(dim).any(|r| r != start.as_slice()) {
                o.violate("same_trajectory", &format!("{fam}[{how}]:identical-trajectories"), format!("chains {i} and {j} started at one state follow bit-identical trajectories"));
            }
        }
        o.count(&format!("probe_{how}_construction"), 1);
        o.count("probe_momentum_rows_observed", mom_rows.len() as u64);
        if ws {
            o.sample = Some(json!({"kind": kind, "n_chains": nc, "construction": how, "momentum_rows_observed": mom_rows.len()}));
        }
        o
    }
    fn shrink(&self, p: &Value) -> Vec<Value> {
        let mut out = vec![];
        shrink_int(p, "n_chains", 2, &mut out);
        out
    }
    fn rule(&self) -> &'static str {
        "one run = an HMC batch or NUTS sampler with 2..64 chains all started at one state, built with defaults or seeded (special seeds); traced momentum rows, acceptance draws, per-chain generator states (NUTS) and trajectories must differ pairwise; distinct = parameter hash"
    }
    fn components(&self) -> Value {
        json!({"real": ["HMC::new/set_seed/step", "NUTS::new/set_seed/run"], "stub": []})
    }
}
