//! C01 — Metropolis-Hastings step obeys the MH acceptance rule (detailed balance).

use super::*;
use crate::craft::*;
use mini_mcmc::core::MarkovChain;
use mini_mcmc::distributions::{Proposal, Target};
use mini_mcmc::metropolis_hastings::MHMarkovChain;
use num_traits::Float;

pub fn def() -> PropertyDef {
    PropertyDef {
        id: "C01",
        level: "exploration",
        scenarios: vec![Box::new(RuleSteps), Box::new(Kernel), Box::new(CallbackPanics)],
        assumptions: vec![
            "the acceptance draw is the next uniform of the chain's public generator (as the property's anchor states); it is injected through a crafted SmallRng state, self-checked against rand on every start",
            "table values are dyadic rationals (exact sums in f32 and f64) or, for generic reals, decisions within 16 ulp of the threshold are counted as ambiguous and not judged",
        ],
    }
}

/// the party on the other side of the Target / Proposal seams: table-driven, scripted candidate
#[derive(Clone, Debug)]
pub struct ScriptTarget<F> {
    pub lp: Vec<F>,
}
#[derive(Clone, Debug)]
pub struct ScriptProposal<S, F> {
    pub lq: Vec<Vec<F>>, // lq[from][to] = log q(to | from)
    pub next: Vec<S>,
    pub calls: u64,
}

pub trait StateElt: Clone + PartialEq + num_traits::Zero + std::fmt::Debug + Send + 'static {
    fn of_idx(i: usize) -> Self;
    fn idx(&self) -> usize;
    fn special(k: u64) -> Self;
    fn bits(&self) -> u64;
}
impl StateElt for f64 {
    fn of_idx(i: usize) -> f64 {
        i as f64
    }
    fn idx(&self) -> usize {
        *self as usize
    }
    fn special(k: u64) -> f64 {
        [0.0, -0.0, f64::NAN, f64::INFINITY, f64::MIN_POSITIVE / 4.0, -1.5e300, f64::from_bits(0x7ff8_0000_0000_1234)][(k % 7) as usize]
    }
    fn bits(&self) -> u64 {
        self.to_bits()
    }
}
impl StateElt for f32 {
    fn of_idx(i: usize) -> f32 {
        i as f32
    }
    fn idx(&self) -> usize {
        *self as usize
    }
    fn special(k: u64) -> f32 {
        [0.0f32, -0.0, f32::NAN, f32::NEG_INFINITY, f32::MIN_POSITIVE / 4.0, 3.0e38, f32::from_bits(0x7fc0_1234)][(k % 7) as usize]
    }
    fn bits(&self) -> u64 {
        self.to_bits() as u64
    }
}
impl StateElt for i32 {
    fn of_idx(i: usize) -> i32 {
        i as i32
    }
    fn idx(&self) -> usize {
        *self as usize
    }
    fn special(k: u64) -> i32 {
        [0, -1, i32::MAX, i32::MIN, 7][(k % 5) as usize]
    }
    fn bits(&self) -> u64 {
        *self as u32 as u64
    }
}
impl StateElt for usize {
    fn of_idx(i: usize) -> usize {
        i
    }
    fn idx(&self) -> usize {
        *self
    }
    fn special(k: u64) -> usize {
        [0, 1, usize::MAX, 12345][(k % 4) as usize]
    }
    fn bits(&self) -> u64 {
        *self as u64
    }
}

impl<S: StateElt, F: Float> Target<S, F> for ScriptTarget<F> {
    fn unnorm_logp(&self, x: &[S]) -> F {
        self.lp[x[0].idx()]
    }
}
impl<S: StateElt, F: Float> Proposal<S, F> for ScriptProposal<S, F> {
    fn sample(&mut self, _cur: &[S]) -> Vec<S> {
        self.calls += 1;
        self.next.clone()
    }
    fn logp(&self, from: &[S], to: &[S]) -> F {
        self.lq[from[0].idx()][to[0].idx()]
    }
    fn set_seed(self, _seed: u64) -> Self {
        self
    }
}

pub trait FloatElt: Float + std::fmt::Debug + Send + 'static {
    fn of_f64(x: f64) -> Self;
    fn u_of_raw(raw: u64) -> Self;
    /// number of distinct uniform values (2^53 / 2^24) and raw word for the k-th
    fn n_u() -> u64;
    fn raw_of_k(k: u64) -> u64;
    fn as_f64(self) -> f64;
    fn ulps_apart(a: Self, b: Self) -> u64;
    const NAME: &'static str;
}
impl FloatElt for f64 {
    fn of_f64(x: f64) -> f64 {
        x
    }
    fn u_of_raw(raw: u64) -> f64 {
        f64_of_raw(raw)
    }
    fn n_u() -> u64 {
        1 << 53
    }
    fn raw_of_k(k: u64) -> u64 {
        raw_for_f64_k(k)
    }
    fn as_f64(self) -> f64 {
        self
    }
    fn ulps_apart(a: f64, b: f64) -> u64 {
        if !a.is_finite() || !b.is_finite() {
            return u64::MAX;
        }
        let f = |x: f64| {
            let b = x.to_bits() as i64;
            if b < 0 {
                i64::MIN - b
            } else {
                b
            }
        };
        (f(a) as i128 - f(b) as i128).unsigned_abs() as u64
    }
    const NAME: &'static str = "f64";
}
impl FloatElt for f32 {
    fn of_f64(x: f64) -> f32 {
        x as f32
    }
    fn u_of_raw(raw: u64) -> f32 {
        f32_of_raw(raw)
    }
    fn n_u() -> u64 {
        1 << 24
    }
    fn raw_of_k(k: u64) -> u64 {
        raw_for_f32_k(k as u32)
    }
    fn as_f64(self) -> f64 {
        self as f64
    }
    fn ulps_apart(a: f32, b: f32) -> u64 {
        if !a.is_finite() || !b.is_finite() {
            return u64::MAX;
        }
        let f = |x: f32| {
            let b = x.to_bits() as i32;
            if b < 0 {
                i32::MIN - b
            } else {
                b
            }
        };
        (f(a) as i64 - f(b) as i64).unsigned_abs()
    }
    const NAME: &'static str = "f32";
}

/// the property's rule, evaluated in the chain's float type with the stated association
fn reference_accept<F: FloatElt>(px: F, py: F, q_x_given_y: F, q_y_given_x: F, u: F) -> (bool, F, F) {
    let ratio = (py + q_x_given_y) - (px + q_y_given_x);
    let lnu = u.ln();
    (lnu < ratio, ratio, lnu)
}

/// a table entry: mostly dyadic finite values, sometimes -inf / +inf / NaN
fn gen_entry<F: FloatElt>(g: &mut Gen, specials: bool, dyadic: bool) -> F {
    if specials {
        match g.range(0, 19) {
            0 | 1 => return F::neg_infinity(),
            2 => return F::infinity(),
            3 => return F::nan(),
            _ => {}
        }
    }
    if dyadic {
        F::of_f64((g.range(0, 512) as f64 - 400.0) / 8.0) // [-50, 14] in steps of 1/8
    } else {
        F::of_f64(g.f64_in(-40.0, 10.0))
    }
}

fn smallest_rejecting_k<F: FloatElt>(ratio: F) -> u64 {
    // smallest k in [0, n_u] with !(ln(u_k) < ratio); ln is monotone in u
    let (mut lo, mut hi) = (0u64, F::n_u()); // invariant: all k < lo accept, all k >= hi reject (hi = n_u: none)
    while lo < hi {
        let mid = lo + (hi - lo) / 2;
        let u = F::u_of_raw(F::raw_of_k(mid));
        if u.ln() < ratio {
            lo = mid + 1;
        } else {
            hi = mid;
        }
    }
    lo
}

struct RuleSteps;

fn rule_steps<S: StateElt, F: FloatElt>(params: &Value, want_sample: bool) -> Outcome
where
    rand_distr::StandardUniform: rand_distr::Distribution<F>,
{
    let mut o = Outcome::default();
    let mut g = Gen::new(pu(params, "gseed"));
    let k = pus(params, "k");
    let steps = pus(params, "steps");
    let dyadic = pb(params, "dyadic");
    let specials = pb(params, "specials");
    let dim = pus(params, "dim");
    let lp: Vec<F> = (0..k).map(|_| gen_entry::<F>(&mut g, specials, dyadic)).collect();
    let lq: Vec<Vec<F>> = (0..k).map(|_| (0..k).map(|_| gen_entry::<F>(&mut g, specials, dyadic)).collect()).collect();
    let mk_n = |i: usize, sp: u64, n: usize| -> Vec<S> {
        let mut v = vec![S::of_idx(i)];
        for d in 1..n {
            v.push(S::special(sp + d as u64));
        }
        v
    };
    let mk = |i: usize, sp: u64| -> Vec<S> { mk_n(i, sp, dim) };
    let target = ScriptTarget { lp: lp.clone() };
    let proposal = ScriptProposal::<S, F> { lq: lq.clone(), next: mk(0, 0), calls: 0 };
    let mut chain = MHMarkovChain::new(target, proposal, mk(0, 0));
    let mut samples = vec![];
    let mut hash = 0u64;
    for step in 0..steps {
        let x = g.usize(0, k - 1);
        let y = g.usize(0, k - 1);
        let (spx, spy) = (g.u64(), g.u64());
        let xs = mk(x, spx);
        // 1 step in 5: the candidate has another number of coordinates than the current state (a state is a
        // Vec; "ends at y" means at y, whatever its length)
        let ys = if g.bool(1, 5) {
            o.count("probe_candidate_of_another_length", 1);
            mk_n(y, spy, g.usize(1, dim + 2))
        } else {
            mk(y, spy)
        };
        let (px, py, qxy, qyx) = (lp[x], lp[y], lq[y][x], lq[x][y]);
        let ratio = (py + qxy) - (px + qyx);
        // choose the raw word of the acceptance draw
        let class = g.range(0, 9);
        let raw = match class {
            0 => 0,
            1 => u64::MAX,
            2 | 3 | 4 if ratio.is_finite() => {
                // bracket the threshold: k*-1, k*, k*+1 around the smallest rejecting draw
                let ks = smallest_rejecting_k::<F>(ratio);
                let off = g.range(0, 2);
                let kk = (ks + off).saturating_sub(1).min(F::n_u() - 1);
                o.count("probe_threshold_bracket_draws", 1);
                F::raw_of_k(kk) | (g.u64() & 0x3ff) // low bits are not part of the uniform
            }
            _ => g.u64(),
        };
        let u = F::u_of_raw(raw);
        let (want_accept, ratio2, lnu) = reference_accept::<F>(px, py, qxy, qyx, u);
        debug_assert!(ratio2.to_f64().unwrap().to_bits() == ratio.to_f64().unwrap().to_bits() || ratio.is_nan());
        chain.current_state = xs.clone();
        chain.proposal.next = ys.clone();
        chain.rng = craft_small_rng(raw);
        let before_calls = chain.proposal.calls;
        let ret: Vec<S> = chain.step().clone();
        let now = chain.current_state.clone();
        o.work += 1;
        if chain.proposal.calls != before_calls + 1 {
            o.violate("proposal_calls", "MH::step:proposal-sampled-not-once", format!("proposal.sample called {} times in one step", chain.proposal.calls - before_calls));
        }
        let same = |a: &Vec<S>, b: &Vec<S>| a.len() == b.len() && a.iter().zip(b).all(|(p, q)| p.bits() == q.bits());
        if !same(&ret, &now) {
            o.violate("return_value", "MH::step:return-differs-from-state", "step() returned something else than the chain's state".into());
        }
        // ambiguity: generic reals close to the threshold (association / rounding), never for dyadic tables
        let ambiguous = !dyadic && ratio.is_finite() && lnu.is_finite() && F::ulps_apart(ratio, lnu) <= 16;
        if ambiguous {
            o.count("ambiguous_not_judged", 1);
            continue;
        }
        let moved = same(&now, &ys);
        let stayed = same(&now, &xs);
        // x == y bitwise: both hold; nothing to decide
        let detail = || format!("x={x} y={y} {}: p(x)={:?} p(y)={:?} q(x|y)={:?} q(y|x)={:?} ratio={:?} u={:?} ln u={:?} (raw {raw:#x}); state after = {:?}", F::NAME, px, py, qxy, qyx, ratio, u, lnu, now);
        if want_accept && !moved {
            let key = if lnu == F::neg_infinity() { "MH::step:rejected-at-u0" } else { "MH::step:rejected-although-lnu<ratio" };
            o.violate("wrong_reject", key, detail());
        } else if !want_accept && !stayed {
            let key = if ratio.is_nan() {
                "MH::step:accepted-NaN-ratio"
            } else if ratio == lnu {
                "MH::step:accepted-at-tie"
            } else {
                "MH::step:accepted-although-lnu>=ratio"
            };
            o.violate("wrong_accept", key, detail());
        } else if !moved && !stayed {
            o.violate("state_corrupted", "MH::step:state-neither-x-nor-y", detail());
        }
        o.count("probe_ratio_nan", ratio.is_nan() as u64);
        o.count("probe_ratio_neg_inf", (ratio == F::neg_infinity()) as u64);
        o.count("probe_ratio_pos_inf", (ratio == F::infinity()) as u64);
        o.count("probe_u_zero", (u == F::zero()) as u64);
        o.count("probe_exact_tie", (ratio == lnu) as u64);
        o.count("probe_accepts", want_accept as u64);
        hash = mix(hash, mix(raw, (x * 16 + y) as u64));
        if want_sample && samples.len() < 4 {
            samples.push(json!({"step": step, "x": x, "y": y, "ratio": format!("{:?}", ratio), "u": format!("{:?}", u), "accept": want_accept}));
        }
    }
    // constructed exact ties: p(y) = ln(u) exactly, everything else 0 => ratio == ln u => must stay;
    // and the next representable ratio above => must move
    for t in 0..4u64 {
        let kk = [F::n_u() / 2, F::n_u() / 4 + 1, g.range(1, F::n_u() - 1), F::n_u() - 1][t as usize];
        let raw = F::raw_of_k(kk);
        let u = F::u_of_raw(raw);
        let lnu = u.ln();
        for bump in 0..2 {
            let py = if bump == 0 { lnu } else { next_up(lnu) };
            let z = F::zero();
            let target = ScriptTarget { lp: vec![z, py] };
            let proposal = ScriptProposal::<S, F> { lq: vec![vec![z, z], vec![z, z]], next: mk(1, 3), calls: 0 };
            let mut c2 = MHMarkovChain::new(target, proposal, mk(0, 5));
            c2.rng = craft_small_rng(raw);
            let xs = c2.current_state.clone();
            c2.step();
            o.work += 1;
            let stayed = c2.current_state.iter().zip(&xs).all(|(a, b)| a.bits() == b.bits());
            if bump == 0 && !stayed {
                o.violate("wrong_accept", "MH::step:accepted-at-tie", format!("{}: ratio == ln u == {:?} exactly (u={:?}) but the chain moved", F::NAME, lnu, u));
            }
            if bump == 1 && stayed {
                o.violate("wrong_reject", "MH::step:rejected-although-lnu<ratio", format!("{}: ratio = next float above ln u = {:?} (u={:?}) but the chain stayed", F::NAME, lnu, u));
            }
            o.count("probe_constructed_ties", 1);
        }
    }
    o.hash = mix(hash, str_hash(&params.to_string()));
    o.nontrivial = steps >= 4;
    if want_sample {
        o.sample = Some(json!({"lp": format!("{:?}", lp), "lq_row0": format!("{:?}", lq[0]), "steps": samples}));
    }
    o
}

fn next_up<F: FloatElt>(x: F) -> F {
    // x is a negative finite number here (ln of u in (0,1)); next float toward +inf
    let e = F::epsilon();
    let mut y = x + x.abs() * e;
    // tighten: halve the step while still above x
    let mut step = x.abs() * e;
    loop {
        step = step / (F::one() + F::one());
        let c = x + step;
        if c > x && c < y {
            y = c;
        } else {
            break;
        }
        if step == F::zero() {
            break;
        }
    }
    y
}

impl Scenario for RuleSteps {
    fn name(&self) -> &'static str {
        "mh_rule_steps"
    }
    fn runs(&self, tier: Tier) -> u64 {
        tier.pick(800_000, 40_000_000)
    }
    fn generate(&self, g: &mut Gen, _tier: Tier, _idx: u64) -> Value {
        json!({"types": *g.pick(&["f64/f64", "f64/f64", "f32/f32", "i32/f64", "i32/f32", "usize/f64"]), "gseed": g.u64(), "k": g.usize(2, 8), "steps": 64, "dim": g.usize(1, 3),
               "dyadic": g.bool(3, 4), "specials": g.bool(2, 3)})
    }
    fn execute(&self, p: &Value, ws: bool) -> Outcome {
        match ps(p, "types") {
            "f32/f32" => rule_steps::<f32, f32>(p, ws),
            "i32/f64" => rule_steps::<i32, f64>(p, ws),
            "i32/f32" => rule_steps::<i32, f32>(p, ws),
            "usize/f64" => rule_steps::<usize, f64>(p, ws),
            _ => rule_steps::<f64, f64>(p, ws),
        }
    }
    fn shrink(&self, p: &Value) -> Vec<Value> {
        let mut out = vec![];
        shrink_int(p, "steps", 1, &mut out);
        shrink_int(p, "k", 2, &mut out);
        shrink_int(p, "dim", 1, &mut out);
        if pb(p, "specials") {
            out.push(with(p, "specials", json!(false)));
        }
        if !pb(p, "dyadic") {
            out.push(with(p, "dyadic", json!(true)));
        }
        out
    }
    fn rule(&self) -> &'static str {
        "one run = one generated (target table, proposal table) program on 2..8 states incl. -inf/+inf/NaN entries, 64 scripted steps (x, y, injected raw acceptance word: uniform, extremes 0 and max, the three draws bracketing the threshold) + 8 constructed exact ties; non-trivial = >= 4 steps; distinct = hash of (x, y, raw) sequence and program"
    }
    fn components(&self) -> Value {
        json!({"real": ["MHMarkovChain::step"], "stub": ["Target and Proposal = scripted tables", "acceptance generator = crafted SmallRng state"]})
    }
}

// ---------------------------------------------------------------------------------------------
// exact kernel on finite spaces: acceptance probabilities extracted by bisection over injected u
// ---------------------------------------------------------------------------------------------
struct Kernel;

fn kernel_run<F: FloatElt>(params: &Value, want_sample: bool) -> Outcome
where
    rand_distr::StandardUniform: rand_distr::Distribution<F>,
{
    let mut o = Outcome::default();
    let mut g = Gen::new(pu(params, "gseed"));
    let k = pus(params, "k");
    // target pmf and proposal matrix (rows sum to 1, some zeros, asymmetric)
    let w: Vec<f64> = (0..k).map(|_| if g.bool(1, 8) { 0.0 } else { g.log_uniform(1e-3, 1.0) }).collect();
    let mut q = vec![vec![0.0f64; k]; k];
    for i in 0..k {
        let mut row: Vec<f64> = (0..k).map(|_| if g.bool(1, 4) { 0.0 } else { g.log_uniform(1e-2, 1.0) }).collect();
        if row.iter().all(|x| *x == 0.0) {
            row[(i + 1) % k] = 1.0;
        }
        let s: f64 = row.iter().sum();
        for j in 0..k {
            q[i][j] = row[j] / s;
        }
    }
    let lp: Vec<F> = w.iter().map(|x| F::of_f64(x.ln())).collect();
    let lq: Vec<Vec<F>> = q.iter().map(|r| r.iter().map(|x| F::of_f64(x.ln())).collect()).collect();
    // the distribution the chain actually targets: exp of the (rounded) table
    let pi_un: Vec<f64> = lp.iter().map(|x| x.as_f64().exp()).collect();
    let z: f64 = pi_un.iter().sum();
    if z == 0.0 {
        o.hash = str_hash(&params.to_string());
        return o;
    }
    let pi: Vec<f64> = pi_un.iter().map(|x| x / z).collect();
    let qe: Vec<Vec<f64>> = lq.iter().map(|r| r.iter().map(|x| x.as_f64().exp()).collect()).collect();
    let target = ScriptTarget { lp: lp.clone() };
    let proposal = ScriptProposal::<i32, F> { lq: lq.clone(), next: vec![0], calls: 0 };
    let mut chain = MHMarkovChain::new(target, proposal, vec![0i32]);
    // a(x,y) by bisection on the raw word: accepted(u) must be monotone (true for small u)
    let mut a = vec![vec![0.0f64; k]; k];
    let nbits = if F::NAME == "f64" { 53 } else { 24 };
    for x in 0..k {
        if pi[x] == 0.0 {
            continue; // not a state of the chain
        }
        for y in 0..k {
            if qe[x][y] == 0.0 {
                continue; // never proposed
            }
            let mut accepts = |kk: u64| -> bool {
                chain.current_state = vec![x as i32];
                chain.proposal.next = vec![y as i32];
                chain.rng = craft_small_rng(F::raw_of_k(kk));
                chain.step();
                o.work += 1;
                chain.current_state[0] == y as i32
            };
            if x == y {
                a[x][y] = 1.0;
                continue;
            }
            let (mut lo, mut hi) = (1u64, F::n_u()); // u = 0 excluded (ln 0 = -inf accepts everything finite)
            if !accepts(lo) {
                a[x][y] = 0.0;
                continue;
            }
            while hi - lo > 1 {
                let mid = lo + (hi - lo) / 2;
                if accepts(mid) {
                    lo = mid;
                } else {
                    hi = mid;
                }
            }
            a[x][y] = hi as f64 / F::n_u() as f64;
            let _ = nbits;
        }
    }
    // kernel and detailed balance
    let tol = if F::NAME == "f64" { 1e-12 } else { 3e-6 };
    let mut p = vec![vec![0.0f64; k]; k];
    for x in 0..k {
        let mut off = 0.0;
        for y in 0..k {
            if x != y {
                p[x][y] = qe[x][y] * a[x][y];
                off += p[x][y];
            }
        }
        p[x][x] = 1.0 - off;
    }
    let mut worst = 0.0f64;
    for x in 0..k {
        for y in 0..k {
            if x == y || pi[x] == 0.0 || pi[y] == 0.0 {
                continue;
            }
            let l = pi[x] * p[x][y];
            let r = pi[y] * p[y][x];
            let scale = l.abs().max(r.abs()).max(1e-300);
            let rel = (l - r).abs() / scale;
            // resolution of the bisection: a is known to 2^-nbits absolute
            let res = (pi[x] * qe[x][y] + pi[y] * qe[y][x]) / F::n_u() as f64 * 2.0;
            if (l - r).abs() > tol * scale + res {
                o.violate(
                    "detailed_balance",
                    "MH::step:detailed-balance",
                    format!("{}: pi({x})P({x},{y}) = {l:e} but pi({y})P({y},{x}) = {r:e} (a({x},{y})={}, a({y},{x})={}, q({y}|{x})={}, q({x}|{y})={})", F::NAME, a[x][y], a[y][x], qe[x][y], qe[y][x]),
                );
            }
            worst = worst.max(rel);
        }
        // a move into a zero-probability state must never be accepted
        for y in 0..k {
            if pi[x] > 0.0 && pi[y] == 0.0 && qe[x][y] > 0.0 && a[x][y] > 0.0 {
                o.violate("zero_density_accepted", "MH::step:accepted-zero-density", format!("{}: move {x}->{y} into a zero-probability state accepted with probability {}", F::NAME, a[x][y]));
            }
        }
    }
    // stationarity pi P = pi
    for y in 0..k {
        let s: f64 = (0..k).map(|x| pi[x] * p[x][y]).sum();
        // resolution of the extracted acceptance probabilities: 2^-53 / 2^-24 ABSOLUTE per pair, so
        // the inflow into a low-probability state carries an absolute, not a relative, uncertainty
        let inflow_res: f64 = (0..k).map(|x| pi[x] * qe[x][y]).sum::<f64>() * 4.0 / F::n_u() as f64;
        if pi[y] > 0.0 && (s - pi[y]).abs() > tol * 10.0 * pi[y] + inflow_res + pi[y] * qe[y].iter().sum::<f64>() * 4.0 / F::n_u() as f64 + 1e-300 {
            o.violate("not_stationary", "MH::step:not-stationary", format!("{}: (pi P)({y}) = {s:e} != pi({y}) = {:e}", F::NAME, pi[y]));
        }
    }
    o.count("probe_asymmetric_pairs", (0..k).flat_map(|x| (0..k).map(move |y| (x, y))).filter(|(x, y)| x < y && (qe[*x][*y] - qe[*y][*x]).abs() > 1e-9).count() as u64);
    o.count("probe_one_sided_zero_moves", (0..k).flat_map(|x| (0..k).map(move |y| (x, y))).filter(|(x, y)| x != y && qe[*x][*y] > 0.0 && qe[*y][*x] == 0.0).count() as u64);
    o.hash = str_hash(&params.to_string());
    o.nontrivial = k >= 2;
    if want_sample {
        o.sample = Some(json!({"pi": pi, "q": qe, "a": a, "worst_relative_db_gap": worst}));
    }
    o
}

impl Scenario for Kernel {
    fn name(&self) -> &'static str {
        "mh_exact_kernel"
    }
    fn runs(&self, tier: Tier) -> u64 {
        tier.pick(12_000, 400_000)
    }
    fn generate(&self, g: &mut Gen, _tier: Tier, _idx: u64) -> Value {
        json!({"float": *g.pick(&["f64", "f64", "f32"]), "gseed": g.u64(), "k": g.usize(2, 7)})
    }
    fn execute(&self, p: &Value, ws: bool) -> Outcome {
        if ps(p, "float") == "f32" {
            kernel_run::<f32>(p, ws)
        } else {
            kernel_run::<f64>(p, ws)
        }
    }
    fn shrink(&self, p: &Value) -> Vec<Value> {
        let mut out = vec![];
        shrink_int(p, "k", 2, &mut out);
        out
    }
    fn rule(&self) -> &'static str {
        "one run = a random pmf (with zero-probability states) and asymmetric row-stochastic proposal matrix (with zero moves) on 2..7 states; the exact acceptance probability of every ordered pair is extracted by bisection over the injected acceptance draw (53 / 24 real steps per pair) and detailed balance, zero-density exclusion and pi P = pi are checked; distinct = program hash"
    }
    fn components(&self) -> Value {
        json!({"real": ["MHMarkovChain::step (every probe of the bisection is one real step)"], "stub": ["table Target/Proposal", "crafted acceptance generator"]})
    }
}


// ---- fault: one of the user's callbacks of a step panics and the caller catches it ---------------
/// log-density / proposal with a shared fuse: the k-th evaluation (target or proposal density) after
/// arming panics; candidates are drawn around the current state
#[derive(Clone)]
struct FuseTarget {
    fuse: std::sync::Arc<std::sync::atomic::AtomicI64>,
}
impl FuseTarget {
    fn tick(&self) {
        if self.fuse.fetch_sub(1, std::sync::atomic::Ordering::SeqCst) == 1 {
            panic!("VERIF-INJECTED callback failure");
        }
    }
}
impl Target<f64, f64> for FuseTarget {
    fn unnorm_logp(&self, x: &[f64]) -> f64 {
        self.tick();
        -0.5 * x.iter().map(|v| v * v).sum::<f64>()
    }
}
#[derive(Clone)]
struct FuseProposal {
    t: FuseTarget,
    rng: rand::rngs::SmallRng,
}
impl Proposal<f64, f64> for FuseProposal {
    fn sample(&mut self, c: &[f64]) -> Vec<f64> {
        use rand::Rng;
        c.iter().map(|x| x + self.rng.random::<f64>() - 0.5).collect()
    }
    fn logp(&self, from: &[f64], to: &[f64]) -> f64 {
        self.t.tick();
        -from.iter().zip(to).map(|(a, b)| (a - b).abs()).sum::<f64>()
    }
    fn set_seed(mut self, s: u64) -> Self {
        use rand::SeedableRng;
        self.rng = rand::rngs::SmallRng::seed_from_u64(s);
        self
    }
}

struct CallbackPanics;
impl Scenario for CallbackPanics {
    fn name(&self) -> &'static str {
        "callback_panics"
    }
    fn runs(&self, tier: Tier) -> u64 {
        tier.pick(4000, 400_000)
    }
    fn generate(&self, g: &mut Gen, _t: Tier, _i: u64) -> Value {
        json!({"d": g.usize(1, 3), "seed": g.u64(), "steps_before": g.usize(0, 5), "fail_eval": g.usize(1, 4), "steps_after": g.usize(1, 4)})
    }
    fn execute(&self, p: &Value, _ws: bool) -> Outcome {
        use rand::SeedableRng;
        let mut o = Outcome::default();
        let d = pus(p, "d");
        let fuse = std::sync::Arc::new(std::sync::atomic::AtomicI64::new(i64::MAX / 2));
        let t = FuseTarget { fuse: fuse.clone() };
        let prop = FuseProposal { t: t.clone(), rng: rand::rngs::SmallRng::seed_from_u64(pu(p, "seed") ^ 1) };
        let mut chain = MHMarkovChain::new(t, prop, vec![0.25; d]);
        chain.rng = rand::rngs::SmallRng::seed_from_u64(pu(p, "seed"));
        o.hash = str_hash(&p.to_string());
        for _ in 0..pus(p, "steps_before") {
            chain.step();
        }
        let before: Vec<u64> = chain.current_state.iter().map(|v| v.to_bits()).collect();
        // arm: the k-th density evaluation of the next step fails (a step makes four: p(y), p(x), q(x|y), q(y|x))
        fuse.store(pus(p, "fail_eval") as i64, std::sync::atomic::Ordering::SeqCst);
        let _ = mcmc_sim::sim::take_last_panic();
        let r = std::panic::catch_unwind(std::panic::AssertUnwindSafe(|| {
            chain.step();
        }));
        fuse.store(i64::MAX / 2, std::sync::atomic::Ordering::SeqCst);
        let fired = r.is_err();
        o.count("fault_callback_panicked", fired as u64);
        o.nontrivial = fired;
        if fired {
            let m = mcmc_sim::sim::take_last_panic().unwrap_or_default();
            if !m.contains("VERIF-INJECTED") {
                let loc = m.rsplit(" @ ").next().unwrap_or("").to_string();
                o.violate("panic", &format!("MH::step:panic@{loc}"), m);
                return o;
            }
            // no decision was taken in that step: the chain is at x, bit for bit
            let now: Vec<u64> = chain.current_state.iter().map(|v| v.to_bits()).collect();
            if now != before {
                o.violate("state_changed_without_decision", "MH::step:state-changed-by-a-step-that-failed-before-its-decision", format!("evaluation {} of the step failed (caught by the caller); the chain was at {:?} and is now at {:?}", pus(p, "fail_eval"), before.iter().map(|b| f64::from_bits(*b)).collect::<Vec<_>>(), chain.current_state));
                return o;
            }
        }
        for _ in 0..pus(p, "steps_after") {
            let r = std::panic::catch_unwind(std::panic::AssertUnwindSafe(|| {
                chain.step();
            }));
            if r.is_err() {
                let m = mcmc_sim::sim::take_last_panic().unwrap_or_default();
                let loc = m.rsplit(" @ ").next().unwrap_or("").to_string();
                o.violate("panic", &format!("MH::step(after-fault):panic@{loc}"), m);
                return o;
            }
        }
        o.work = 1;
        o
    }
    fn rule(&self) -> &'static str {
        "one run = an MH chain (d 1..3) in whose step after 0..5 ordinary steps the k-th density evaluation (k = 1..4: target at y, target at x, q(x|y), q(y|x)) panics, the caller catching it; no decision was taken, so the chain must be at x bit for bit, and later steps must work; non-trivial = the fault fired"
    }
    fn components(&self) -> Value {
        json!({"real": ["MHMarkovChain::step"], "stub": ["target / proposal with a shared one-shot fuse"]})
    }
}
