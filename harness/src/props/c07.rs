//! C07 — same seed, same output: bit-reproducible, thread-count and schedule independent.

use super::*;
use crate::props::c10::sim_failure_violation;
use crate::zoo::*;
use mcmc_sim::sim::run_sim;
use mini_mcmc::core::{init_det, init_with_seed};

pub fn def() -> PropertyDef {
    PropertyDef {
        id: "C07",
        level: "exploration",
        scenarios: vec![Box::new(ReproSched), Box::new(Concurrent), Box::new(ProgressVsRun), Box::new(InitPure), Box::new(SeedSensitivity)],
        assumptions: vec![
            "inside simulations the rayon pool is the simulator's work-claiming stub (W workers, any element to any worker in any order); real rayon pools are run as a fidelity cross-check",
            "MH proposals are seeded by the harness via Proposal::set_seed before construction (they are inputs of the sampler)",
            "Gibbs conditionals are deterministic functions of (index, state), as the property's quantifier requires",
        ],
    }
}

pub fn special_seed(g: &mut Gen, n_chains: usize) -> u64 {
    match g.range(0, 11) {
        0 => 0,
        1 => 1,
        2 => 1u64 << 32,
        3 => (1u64 << 63).wrapping_add(g.range(0, 2 * n_chains as u64 + 4)).wrapping_sub(n_chains as u64 + 2),
        4 | 5 => u64::MAX - g.range(0, n_chains as u64 + 1),
        // next to a constant the sources themselves use in seed arithmetic (source-literal dictionary)
        6 | 7 => crate::core::dict_seed(g, n_chains as u64 + 3),
        _ => g.u64(),
    }
}

pub fn gen_spec(g: &mut Gen, kinds: &[&str]) -> Value {
    let kind = *g.pick(kinds);
    let heavy = kind.starts_with("hmc") || kind.starts_with("nuts");
    let nc = if heavy { g.usize(1, 5) } else { g.usize(1, 12) };
    let (ncol, ndis) = if heavy { (g.usize(1, 6), g.usize(0, 5)) } else { (g.usize(1, 30), g.usize(0, 20)) };
    json!({"kind": kind, "n_chains": nc, "seed": special_seed(g, nc).to_string(), "pos_seed": g.range(0, 1000), "n_collect": ncol, "n_discard": ndis})
}

pub fn spec_of(v: &Value) -> Spec {
    Spec { kind: ps(v, "kind").to_string(), n_chains: pus(v, "n_chains"), seed: pu(v, "seed"), pos_seed: pu(v, "pos_seed"), n_collect: pus(v, "n_collect"), n_discard: pus(v, "n_discard"), more_calls: v.get("more_calls").and_then(|m| m.as_array()).map(|a| a.iter().map(|c| (c[0].as_u64().unwrap_or(1) as usize, c[1].as_u64().unwrap_or(0) as usize)).collect()).unwrap_or_default(), prior: v.get("prior").and_then(|m| m.as_array()).map(|c| (c[0].as_u64().unwrap_or(1) as usize, c[1].as_u64().unwrap_or(0) as usize)), clone_of: false }
}

pub fn shrink_spec(v: &Value) -> Vec<Value> {
    let mut out = vec![];
    shrink_int(v, "n_chains", 1, &mut out);
    shrink_int(v, "n_collect", 1, &mut out);
    shrink_int(v, "n_discard", 0, &mut out);
    shrink_int(v, "pos_seed", 0, &mut out);
    out
}

/// run outside any simulation, panics contained; Err(msg @ location) on panic
pub fn solo(spec: &Spec, mode: Mode) -> Result<Result<RunOut, String>, String> {
    let _ = mcmc_sim::sim::take_last_panic();
    let r = std::panic::catch_unwind(std::panic::AssertUnwindSafe(|| run_spec(spec, mode)));
    match r {
        Ok(x) => Ok(x),
        Err(_) => Err(mcmc_sim::sim::take_last_panic().unwrap_or_else(|| "panic".into())),
    }
}

fn panic_key(kind: &str, msg: &str) -> String {
    let loc = msg.rsplit(" @ ").next().unwrap_or("");
    format!("{}:panic@{}", kind_family(kind), loc)
}
pub fn kind_family(kind: &str) -> &'static str {
    if kind.starts_with("mh") {
        "MH"
    } else if kind.starts_with("gibbs") {
        "Gibbs"
    } else if kind.starts_with("hmc") {
        "HMC"
    } else {
        "NUTS"
    }
}

fn first_diff(a: &[u64], b: &[u64]) -> String {
    if a.len() != b.len() {
        return format!("lengths {} vs {}", a.len(), b.len());
    }
    for (i, (x, y)) in a.iter().zip(b).enumerate() {
        if x != y {
            return format!("first difference at flat index {i}: {} vs {}", f64::from_bits(*x), f64::from_bits(*y));
        }
    }
    "equal".into()
}

// ---------------------------------------------------------------------------------------------
struct ReproSched;
impl Scenario for ReproSched {
    fn name(&self) -> &'static str {
        "repro_sched"
    }
    fn runs(&self, tier: Tier) -> u64 {
        tier.pick(2400, 72_000)
    }
    fn generate(&self, g: &mut Gen, _tier: Tier, _idx: u64) -> Value {
        let mut spec = gen_spec(g, KINDS);
        let nc = pus(&spec, "n_chains");
        // 1 run in 4 is a history: one or two further run() calls on the same sampler object
        if g.bool(1, 4) {
            let heavy = ps(&spec, "kind").starts_with("hmc") || ps(&spec, "kind").starts_with("nuts");
            let calls: Vec<Value> = (0..g.usize(1, 2)).map(|_| if heavy { json!([g.usize(1, 4), g.usize(0, 3)]) } else { json!([g.usize(1, 12), g.usize(0, 8)]) }).collect();
            spec = with(&spec, "more_calls", Value::Array(calls));
        }
        let real_rayon = g.bool(1, 8);
        let sim = gen_sim(g, nc + 1, false);
        json!({"spec": spec, "real_rayon": real_rayon, "sim": sim, "clone_second": g.bool(1, 3)})
    }
    fn execute(&self, params: &Value, want_sample: bool) -> Outcome {
        let mut o = Outcome::default();
        let spec = spec_of(&params["spec"]);
        let fam = kind_family(&spec.kind);
        o.work = (spec.n_chains * (spec.n_collect + spec.n_discard)) as u64 * 3;
        o.count("probe_seed_near_max", (spec.seed > u64::MAX - 64) as u64);
        o.count("probe_multi_call_history", (!spec.more_calls.is_empty()) as u64);
        // (a) sequential single-worker reference, (e) construction repeated
        // 1 run in 3: the repeated construction is a Clone of the seeded sampler (taken before it has run)
        let clone_second = params.get("clone_second").and_then(|v| v.as_bool()).unwrap_or(false);
        o.count("probe_second_construction_is_a_clone", clone_second as u64);
        let r1 = solo(&spec, Mode::Sequential);
        let r2 = solo(&Spec { clone_of: clone_second, ..spec.clone() }, Mode::Sequential);
        let (a, b) = match (r1, r2) {
            (Err(m), _) | (_, Err(m)) => {
                o.violate("panic", &panic_key(&spec.kind, &m), format!("{fam} with seed {} panicked: {m}", spec.seed));
                o.nontrivial = true;
                o.hash = str_hash(&params.to_string());
                return o;
            }
            (Ok(Err(e)), _) | (_, Ok(Err(e))) => {
                if e.contains("HARNESS-ERROR") {
                    o.harness_error = Some(e);
                } else {
                    o.violate("run_err", &format!("{fam}:run-Err"), e);
                }
                return o;
            }
            (Ok(Ok(a)), Ok(Ok(b))) => (a, b),
        };
        if a.bits != b.bits {
            o.violate("not_reproducible", &format!("{fam}:same-seed-different-output"), format!("{} built twice from the same inputs and seed {} gave different output: {}", spec.kind, spec.seed, first_diff(&a.bits, &b.bits)));
        }
        // (b) W workers under a seeded schedule (or a real pool)
        let real = pb(params, "real_rayon");
        let got;
        if real {
            match solo(&spec, Mode::Run) {
                Err(m) => {
                    o.violate("panic", &panic_key(&spec.kind, &m), m);
                    return o;
                }
                Ok(Err(e)) => {
                    o.violate("run_err", &format!("{fam}:run-Err"), e);
                    return o;
                }
                Ok(Ok(x)) => got = x,
            }
            o.hash = str_hash(&params.to_string());
            o.nontrivial = true;
            o.count("probe_real_rayon_runs", 1);
        } else {
            let cfg = sim_cfg(&params["sim"]);
            let sp = spec.clone();
            let (rep, out) = run_sim(&cfg, move || run_spec(&sp, Mode::Run).map(|r| (r.bits, r.shape)));
            o.sim_time_ns = rep.sim_time_ns;
            o.hash = mix(mix(rep.sched_hash, rep.event_hash), str_hash(&params.to_string()));
            o.nontrivial = rep.context_switches >= 2 || spec.n_chains == 1 || fam == "HMC";
            o.absorb_counters(&rep.counters);
            if want_sample {
                o.sample = Some(report_json(&rep));
                o.schedule = Some(rep.schedule.clone());
            }
            if sim_failure_violation(&mut o, &rep, &format!("{fam}::run")) {
                return o;
            }
            match out {
                None => {
                    o.harness_error = Some("no value".into());
                    return o;
                }
                Some(Err(e)) => {
                    o.violate("run_err", &format!("{fam}:run-Err"), e);
                    return o;
                }
                Some(Ok((bits, shape))) => got = RunOut { bits, shape, stats: None },
            }
        }
        if got.shape != a.shape || got.bits != a.bits {
            o.violate(
                "schedule_dependent",
                &format!("{fam}:run-differs-from-sequential"),
                format!("{} run() under {} differs from the sequential single-worker run: {}", spec.kind, if real { "a real rayon pool".to_string() } else { format!("{} simulated workers", pu(&params["sim"], "workers")) }, first_diff(&got.bits, &a.bits)),
            );
        }
        // different seeds give different output (samplers that draw from a library generator)
        if seed_verdict_meaningful(&spec, &a) {
            let mut other = spec.clone();
            // structured perturbations: one flipped bit at any position, a small offset, or a scramble
            let mut pg = Gen::new(mix(spec.seed, pu(&params["spec"], "pos_seed") ^ 0xd1ff));
            other.seed = match pg.range(0, 5) {
                0 | 1 | 2 => spec.seed ^ (1u64 << pg.range(0, 63)),
                3 => spec.seed.wrapping_add(pg.range(1, 2 * spec.n_chains as u64 + 2)),
                4 => spec.seed.wrapping_add(1u64 << 62),
                _ => spec.seed ^ 0x1234_5678,
            };
            if let Ok(Ok(c)) = solo(&other, Mode::Sequential) {
                o.count("probe_other_seed_compared", 1);
                if c.bits == a.bits {
                    o.violate("seed_ignored", &format!("{fam}:different-seeds-same-output"), format!("{} gives identical output for seeds {} and {}", spec.kind, spec.seed, other.seed));
                }
            }
        }
        o
    }
    fn shrink(&self, p: &Value) -> Vec<Value> {
        let mut out: Vec<Value> = shrink_spec(&p["spec"]).into_iter().map(|s| with(p, "spec", s)).collect();
        shrink_sim(p, &mut out);
        out
    }
    fn rule(&self) -> &'static str {
        "one run = (sampler kind of 10, chains, special/random seed, n_collect, n_discard; 1 in 4: one or two further run() calls on the same object) built twice sequentially, then run() under W simulated workers and a seeded schedule (1/8: real rayon pool), then a different seed; non-trivial = >= 2 context switches (single chain / HMC batch: any); distinct = hash of (schedule, events, parameters)"
    }
    fn components(&self) -> Value {
        json!({"real": ["MetropolisHastings", "GibbsSampler", "HMC", "NUTS", "ChainRunner::run", "NUTS::run", "burn autodiff on NdArray"], "stub": ["parallel iterator = simulated workers", "targets/proposals/conditionals written by the harness"]})
    }
}

// ---------------------------------------------------------------------------------------------
struct Concurrent;
impl Scenario for Concurrent {
    fn name(&self) -> &'static str {
        "concurrent_samplers"
    }
    fn runs(&self, tier: Tier) -> u64 {
        tier.pick(1200, 36_000)
    }
    fn generate(&self, g: &mut Gen, _tier: Tier, _idx: u64) -> Value {
        let n = g.usize(2, 3);
        // bias towards combinations containing a gradient sampler (the ones sharing burn's global generator)
        let specs: Vec<Value> = (0..n)
            .map(|i| {
                let mut s = if i == 0 { gen_spec(g, &["hmc_f32", "hmc_f64", "nuts_f32", "nuts_f64", "mh_gauss"]) } else { gen_spec(g, KINDS) };
                // ordinary seeds here: seed-overflow is repro_sched's business
                s = with(&s, "seed", json!(g.range(0, 1u64 << 40).to_string()));
                s
            })
            .collect();
        // 1 run in 3: every sampler reports progress (run_progress: own threads, channels, clock) while the
        // others do the same
        if g.bool(1, 3) {
            let specs: Vec<Value> = (0..n)
                .map(|_| {
                    let mut s = gen_spec(g, &["mh_gauss", "mh_table", "gibbs_det", "hmc_f32", "nuts_f32", "nuts_f32"]);
                    s = with(&s, "n_collect", json!(pu(&s, "n_collect").max(4)));
                    s = with(&s, "n_chains", json!(pu(&s, "n_chains").min(3)));
                    with(&s, "seed", json!(g.range(0, 1u64 << 40).to_string()))
                })
                .collect();
            // 1 in 3 of these: one more sampler in the process whose run_progress FAILS (a user-defined chain
            // whose state comes out one coordinate short, so that its statistics tracker refuses it)
            return json!({"specs": specs, "progress": true, "faulty_neighbour": g.bool(1, 3), "shrink_at": g.usize(1, 6), "sim": gen_sim(g, 14, true)});
        }
        json!({"specs": specs, "sim": gen_sim(g, 8, false)})
    }
    fn execute(&self, params: &Value, want_sample: bool) -> Outcome {
        let mut o = Outcome::default();
        let specs: Vec<Spec> = params["specs"].as_array().unwrap().iter().map(spec_of).collect();
        let progress = params.get("progress").and_then(|v| v.as_bool()).unwrap_or(false);
        o.count("probe_concurrent_progress_runs", progress as u64);
        let mode = if progress { Mode::Progress } else { Mode::Run };
        let mut refs = vec![];
        for s in &specs {
            // reference: run() alone from the same sampler state (progress mode of NUTS: one more draw, rows 1..)
            let mut rs = s.clone();
            if progress && is_nuts(&s.kind) {
                rs.n_collect += 1;
            }
            match solo(&rs, Mode::Sequential) {
                Ok(Ok(mut r)) => {
                    if progress && is_nuts(&s.kind) {
                        let dim = r.shape[2];
                        let mut v = vec![];
                        for c in 0..r.shape[0] {
                            for k in 1..r.shape[1] {
                                v.extend_from_slice(&r.bits[(c * r.shape[1] + k) * dim..(c * r.shape[1] + k + 1) * dim]);
                            }
                        }
                        r.bits = v;
                    }
                    refs.push(r)
                }
                Ok(Err(e)) => {
                    o.violate("run_err", &format!("{}:run-Err", kind_family(&s.kind)), e);
                    return o;
                }
                Err(m) => {
                    o.violate("panic", &panic_key(&s.kind, &m), m);
                    return o;
                }
            }
            o.work += (s.n_chains * (s.n_collect + s.n_discard)) as u64 * 2;
        }
        let cfg = sim_cfg(&params["sim"]);
        let sp = specs.clone();
        let faulty = progress && params.get("faulty_neighbour").and_then(|v| v.as_bool()).unwrap_or(false);
        let shrink_at = params.get("shrink_at").and_then(|v| v.as_u64()).unwrap_or(2);
        o.count("probe_failing_neighbour_sampler", faulty as u64);
        let (rep, out) = run_sim(&cfg, move || {
            let neighbour = if faulty {
                Some(mcmc_sim::thread::spawn(move || {
                    use mini_mcmc::core::ChainRunner;
                    let mut s = crate::stubs::CountSampler::<f64>::new(2, 3);
                    s.chains[1].shrink_at = Some(shrink_at);
                    // fails (Err or panic): its own business; the others must not notice
                    let _ = s.run_progress(8, 2);
                }))
            } else {
                None
            };
            let handles: Vec<_> = sp
                .iter()
                .cloned()
                .map(|s| mcmc_sim::thread::spawn(move || run_spec(&s, mode).map(|r| r.bits)))
                .collect();
            let res = handles.into_iter().map(|h| h.join().unwrap_or_else(|_| Err("sampler thread panicked".into()))).collect::<Vec<_>>();
            if let Some(n) = neighbour {
                let _ = n.join();
                // the failed neighbour leaves its detached reporter polling (DESIGN section 9, observation):
                // the simulated process ends here
                mcmc_sim::sim::process_exit();
            }
            res
        });
        o.sim_time_ns = rep.sim_time_ns;
        o.hash = mix(mix(rep.sched_hash, rep.event_hash), str_hash(&params.to_string()));
        o.nontrivial = rep.context_switches >= 2;
        o.absorb_counters(&rep.counters);
        if want_sample {
            o.sample = Some(report_json(&rep));
            o.schedule = Some(rep.schedule.clone());
        }
        if sim_failure_violation(&mut o, &rep, "concurrent-samplers") {
            return o;
        }
        let Some(out) = out else {
            o.harness_error = Some("no value".into());
            return o;
        };
        for (i, (got, want)) in out.iter().zip(refs.iter()).enumerate() {
            let fam = kind_family(&specs[i].kind);
            match got {
                Err(e) => o.violate("run_err", &format!("{fam}:run-Err"), e.clone()),
                Ok(bits) => {
                    if *bits != want.bits {
                        let others: Vec<&str> = specs.iter().enumerate().filter(|(j, _)| *j != i).map(|(_, s)| s.kind.as_str()).collect();
                        o.violate(
                            "perturbed_by_concurrent_sampler",
                            &format!("{fam}:output-depends-on-concurrent-samplers"),
                            format!("{} (seed {}) returned different draws when interleaved with {:?} than alone: {}", specs[i].kind, specs[i].seed, others, first_diff(bits, &want.bits)),
                        );
                    }
                }
            }
        }
        o
    }
    fn shrink(&self, p: &Value) -> Vec<Value> {
        let mut out = vec![];
        let specs = p["specs"].as_array().unwrap();
        if specs.len() > 2 {
            for i in 0..specs.len() {
                let mut s = specs.clone();
                s.remove(i);
                out.push(with(p, "specs", Value::Array(s)));
            }
        }
        for i in 0..specs.len() {
            for cand in shrink_spec(&specs[i]) {
                let mut s = specs.clone();
                s[i] = cand;
                out.push(with(p, "specs", Value::Array(s)));
            }
        }
        shrink_sim(p, &mut out);
        out
    }
    fn rule(&self) -> &'static str {
        "one run = 2-3 samplers, each in its own simulated thread calling run() (1 in 3: all calling run_progress(), compared with run() alone), interleaved per transition by a seeded schedule; each must return exactly its solo sequential output; non-trivial = >= 2 context switches; distinct = hash of (schedule, events, parameters)"
    }
    fn components(&self) -> Value {
        json!({"real": ["all four samplers' run()", "burn (incl. its process-global generator)"], "stub": ["threads and pool = simulator"]})
    }
}

// ---------------------------------------------------------------------------------------------
struct ProgressVsRun;
impl Scenario for ProgressVsRun {
    fn name(&self) -> &'static str {
        "progress_vs_run"
    }
    fn runs(&self, tier: Tier) -> u64 {
        tier.pick(1200, 36_000)
    }
    fn generate(&self, g: &mut Gen, _tier: Tier, _idx: u64) -> Value {
        let mut spec = gen_spec(g, &["mh_gauss", "mh_gauss_f32", "mh_table", "gibbs_det", "hmc_f32", "nuts_f32"]);
        let ncol = pu(&spec, "n_collect").max(4);
        spec = with(&spec, "n_collect", json!(ncol));
        spec = with(&spec, "seed", json!(g.range(0, 1u64 << 40).to_string()));
        let nc = pus(&spec, "n_chains");
        json!({"spec": spec, "sim": gen_sim(g, nc + 2, true)})
    }
    fn execute(&self, params: &Value, want_sample: bool) -> Outcome {
        let mut o = Outcome::default();
        let spec = spec_of(&params["spec"]);
        let fam = kind_family(&spec.kind);
        // reference: run() from the same sampler state (NUTS: one more draw, shifted by one)
        let mut rspec = spec.clone();
        if is_nuts(&spec.kind) {
            rspec.n_collect += 1;
        }
        let want = match solo(&rspec, Mode::Sequential) {
            Ok(Ok(r)) => r,
            Ok(Err(e)) => {
                o.violate("run_err", &format!("{fam}:run-Err"), e);
                return o;
            }
            Err(m) => {
                o.violate("panic", &panic_key(&spec.kind, &m), m);
                return o;
            }
        };
        o.work = (spec.n_chains * (spec.n_collect + spec.n_discard)) as u64 * 2;
        let cfg = sim_cfg(&params["sim"]);
        let sp = spec.clone();
        let (rep, out) = run_sim(&cfg, move || run_spec(&sp, Mode::Progress).map(|r| (r.bits, r.shape)));
        o.sim_time_ns = rep.sim_time_ns;
        o.hash = mix(mix(rep.sched_hash, rep.event_hash), str_hash(&params.to_string()));
        o.nontrivial = rep.context_switches >= 2 || fam == "HMC";
        o.absorb_counters(&rep.counters);
        if want_sample {
            o.sample = Some(report_json(&rep));
            o.schedule = Some(rep.schedule.clone());
        }
        if sim_failure_violation(&mut o, &rep, &format!("{fam}::run_progress")) {
            return o;
        }
        match out {
            None => o.harness_error = Some("no value".into()),
            Some(Err(e)) => o.violate("run_err", &format!("{fam}:run_progress-Err"), e),
            Some(Ok((bits, shape))) => {
                let dim = want.shape[2];
                let expect: Vec<u64> = if is_nuts(&spec.kind) {
                    // rows 1.. of each chain of the longer run
                    let mut v = vec![];
                    for c in 0..want.shape[0] {
                        for k in 1..want.shape[1] {
                            for j in 0..dim {
                                v.push(want.bits[(c * want.shape[1] + k) * dim + j]);
                            }
                        }
                    }
                    v
                } else {
                    want.bits.clone()
                };
                if shape != [spec.n_chains, spec.n_collect, dim] || bits != expect {
                    o.violate("progress_differs_from_run", &format!("{fam}:run_progress-differs-from-run"), format!("{} run_progress({}, {}) differs from run: shape {:?}, {}", spec.kind, spec.n_collect, spec.n_discard, shape, first_diff(&bits, &expect)));
                }
            }
        }
        o
    }
    fn shrink(&self, p: &Value) -> Vec<Value> {
        let mut out: Vec<Value> = shrink_spec(&p["spec"]).into_iter().filter(|s| pu(s, "n_collect") >= 4).map(|s| with(p, "spec", s)).collect();
        shrink_sim(p, &mut out);
        out
    }
    fn rule(&self) -> &'static str {
        "one run = a seeded sampler run once with run() sequentially and once with run_progress() on simulated threads/clock under a seeded schedule; draws must be bit-identical (NUTS: shifted by one); non-trivial = >= 2 context switches (HMC: any); distinct = hash of (schedule, events, parameters)"
    }
    fn components(&self) -> Value {
        json!({"real": ["run_progress of MH/Gibbs (core.rs), HMC, NUTS (nuts.rs copy of the protocol)"], "stub": ["threads/channels/clock = simulator"]})
    }
}

// ---------------------------------------------------------------------------------------------
struct InitPure;
impl Scenario for InitPure {
    fn name(&self) -> &'static str {
        "init_pure"
    }
    fn runs(&self, tier: Tier) -> u64 {
        tier.pick(2000, 60_000)
    }
    fn generate(&self, g: &mut Gen, _tier: Tier, _idx: u64) -> Value {
        let (mut n, mut d) = (g.usize(0, 40), g.usize(0, 12));
        // 1 run in 8: a large initialisation whose TOTAL size n*d sits at a threshold of the source-literal
        // dictionary (t-1, t, t+1, or just above), e.g. a size from which work is split over pool workers
        if g.bool(1, 8) {
            if let Some(t) = crate::core::dict_size(g, 16, 100_000) {
                let t = t + if g.bool(1, 3) { g.usize(0, 2000) } else { 0 };
                n = g.usize(1, 64).min(t.max(1));
                d = (t + n - 1) / n;
            }
        }
        json!({"n": n, "d": d, "m": g.usize(0, 40), "seed": special_seed(g, 3).to_string(), "threads": g.usize(1, 4), "pools": g.bool(1, 3), "sim": gen_sim(g, 5, false)})
    }
    fn execute(&self, params: &Value, want_sample: bool) -> Outcome {
        let mut o = Outcome::default();
        let (n, d, m, seed, nt) = (pus(params, "n"), pus(params, "d"), pus(params, "m"), pu(params, "seed"), pus(params, "threads"));
        let base: Vec<Vec<f64>> = init_with_seed(n, d, seed);
        let base32: Vec<Vec<f32>> = init_with_seed(n, d, seed);
        let cfg = sim_cfg(&params["sim"]);
        let (rep, out) = run_sim(&cfg, move || {
            let hs: Vec<_> = (0..nt)
                .map(|t| {
                    mcmc_sim::thread::spawn(move || {
                        mcmc_sim::sched_point("init_a");
                        // different call orders in different threads
                        let (a, b);
                        if t % 2 == 0 {
                            a = init_with_seed::<f64>(n, d, seed);
                            mcmc_sim::sched_point("init_b");
                            b = init_with_seed::<f64>(m, d, seed);
                        } else {
                            b = init_with_seed::<f64>(m, d, seed);
                            mcmc_sim::sched_point("init_b");
                            a = init_with_seed::<f64>(n, d, seed);
                        }
                        let c = init_det::<f64>(n, d);
                        let e = init_with_seed::<f64>(n, d, 42);
                        let f = init_with_seed::<f32>(n, d, seed);
                        (a, b, c, e, f)
                    })
                })
                .collect();
            hs.into_iter().map(|h| h.join().unwrap()).collect::<Vec<_>>()
        });
        o.hash = mix(rep.sched_hash, str_hash(&params.to_string()));
        o.nontrivial = n * d > 0;
        o.work = 5 * nt as u64;
        if want_sample {
            o.sample = Some(report_json(&rep));
        }
        if sim_failure_violation(&mut o, &rep, "init") {
            return o;
        }
        let bits = |v: &Vec<Vec<f64>>| v.iter().map(|r| r.iter().map(|x| x.to_bits()).collect::<Vec<_>>()).collect::<Vec<_>>();
        o.count("probe_init_total_ge_32768", (n * d >= 32768) as u64);
        // pure function of its arguments: also of the size of the rayon pool the call happens to run in
        if params.get("pools").and_then(|v| v.as_bool()).unwrap_or(false) {
            for k in [1usize, 2, 3, 7] {
                let Ok(pool) = rayon::ThreadPoolBuilder::new().num_threads(k).build() else { continue };
                let got: Vec<Vec<f64>> = pool.install(|| init_with_seed(n, d, seed));
                o.count("probe_init_in_real_pool", 1);
                if bits(&got) != bits(&base) {
                    o.violate("init_not_pure", "init_with_seed:depends-on-pool-size", format!("init_with_seed({n},{d},{seed}) inside a rayon pool of {k} workers differs from the call outside any pool"));
                    break;
                }
            }
        }
        for (a, b, c, e, f) in out.unwrap_or_default() {
            if bits(&a) != bits(&base) {
                o.violate("init_not_pure", "init_with_seed:not-pure", format!("init_with_seed({n},{d},{seed}) returned different values on a second call / another thread"));
            }
            if a.len() != n || a.iter().any(|r| r.len() != d) || a.iter().flatten().any(|x| !x.is_finite()) {
                o.violate("init_shape", "init_with_seed:shape", format!("init_with_seed({n},{d},..) returned {} rows / non-finite entries", a.len()));
            }
            if bits(&c) != bits(&e) {
                o.violate("init_det_not_42", "init_det:not-seed-42", "init_det differs from init_with_seed(.., 42)".into());
            }
            let k = n.min(m);
            if bits(&a)[..k] != bits(&b)[..k] {
                o.violate("init_prefix", "init_with_seed:prefix", format!("first {k} rows of init_with_seed({n},{d}) and init_with_seed({m},{d}) differ"));
            }
            if f.iter().map(|r| r.iter().map(|x| x.to_bits()).collect::<Vec<_>>()).collect::<Vec<_>>() != base32.iter().map(|r| r.iter().map(|x| x.to_bits()).collect::<Vec<_>>()).collect::<Vec<_>>() {
                o.violate("init_not_pure", "init_with_seed:not-pure", "f32 variant not pure".into());
            }
        }
        o
    }
    fn shrink(&self, p: &Value) -> Vec<Value> {
        let mut out = vec![];
        shrink_int(p, "n", 0, &mut out);
        shrink_int(p, "d", 0, &mut out);
        shrink_int(p, "m", 0, &mut out);
        shrink_int(p, "threads", 1, &mut out);
        shrink_sim(p, &mut out);
        out
    }
    fn rule(&self) -> &'static str {
        "init_with_seed / init_det (n 0..40 x d 0..12; 1 in 8 with a total size at a dictionary threshold up to 100000) called from 1-4 simulated threads in different call orders and, 1 run in 3, inside real rayon pools of 1, 2, 3, 7 workers; non-trivial = n*d > 0; distinct = hash of (schedule, parameters)"
    }
    fn components(&self) -> Value {
        json!({"real": ["init_with_seed", "init_det"], "stub": ["threads = simulator"]})
    }
}

// ---------------------------------------------------------------------------------------------
/// Is a "same output under two seeds" verdict meaningful for this base run? With the inputs
/// (incl. the proposal stream) fixed, two MH runs differ only through binary accept/reject
/// decisions, so short runs can coincide by chance: demand >= 200 collected transitions per chain
/// and >= 40 accepted moves (coincidence probability far below 2^-40). HMC / NUTS draw continuous
/// momenta from the seeded generator: two accepted moves suffice.
pub fn seed_verdict_meaningful(spec: &Spec, base: &RunOut) -> bool {
    if !kind_uses_library_rng(&spec.kind) {
        return false;
    }
    if spec.kind.starts_with("mh") {
        spec.n_collect >= 200 && count_moves(base) >= 40
    } else {
        count_moves(base) >= 2
    }
}

/// count accepted moves (consecutive rows that differ) in a run output
fn count_moves(a: &RunOut) -> usize {
    let dim = a.shape[2].max(1);
    let mut moves = 0;
    for c in 0..a.shape[0] {
        for k in 1..a.shape[1] {
            let r0 = &a.bits[(c * a.shape[1] + k - 1) * dim..(c * a.shape[1] + k) * dim];
            let r1 = &a.bits[(c * a.shape[1] + k) * dim..(c * a.shape[1] + k + 1) * dim];
            if r0 != r1 {
                moves += 1;
            }
        }
    }
    moves
}

struct SeedSensitivity;
impl Scenario for SeedSensitivity {
    fn name(&self) -> &'static str {
        "seed_sensitivity"
    }
    fn runs(&self, tier: Tier) -> u64 {
        tier.pick(640, 18_000)
    }
    fn generate(&self, g: &mut Gen, _tier: Tier, _idx: u64) -> Value {
        let kinds: Vec<&str> = KINDS.iter().copied().filter(|k| kind_uses_library_rng(k)).collect();
        let mut spec = gen_spec(g, &kinds);
        let kind = ps(&spec, "kind").to_string();
        let heavy = kind.starts_with("hmc") || kind.starts_with("nuts");
        if !heavy {
            spec = with(&spec, "n_collect", json!(g.usize(200, 400)));
            spec = with(&spec, "n_chains", json!(g.usize(1, 8)));
        } else {
            spec = with(&spec, "n_collect", json!(g.usize(4, 8)));
        }
        json!({"spec": spec, "pseed": g.u64(), "n_pairs": if heavy { 6 } else { 72 }})
    }
    fn execute(&self, params: &Value, want_sample: bool) -> Outcome {
        let mut o = Outcome::default();
        let spec = spec_of(&params["spec"]);
        let fam = kind_family(&spec.kind);
        let base = match solo(&spec, Mode::Sequential) {
            Ok(Ok(r)) => r,
            Ok(Err(e)) => {
                o.violate("run_err", &format!("{fam}:run-Err"), e);
                return o;
            }
            Err(m) => {
                o.violate("panic", &panic_key(&spec.kind, &m), m);
                return o;
            }
        };
        o.hash = str_hash(&params.to_string());
        if !seed_verdict_meaningful(&spec, &base) {
            o.count("skipped_chain_did_not_move_enough", 1);
            return o;
        }
        o.nontrivial = true;
        let mut pg = Gen::new(pu(params, "pseed"));
        let mut cands: Vec<u64> = (0..64).map(|b| spec.seed ^ (1u64 << b)).collect();
        for k in 1..=(spec.n_chains as u64 + 2) {
            cands.push(spec.seed.wrapping_add(k));
        }
        cands.push(spec.seed.wrapping_add(1u64 << 62));
        cands.push(!spec.seed);
        cands.push(spec.seed.wrapping_mul(3).wrapping_add(7));
        let n_pairs = pus(params, "n_pairs");
        let mut tried = vec![];
        while tried.len() < n_pairs.min(cands.len()) {
            let c = cands.remove(pg.usize(0, cands.len() - 1));
            tried.push(c);
        }
        for other_seed in tried {
            let mut other = spec.clone();
            other.seed = other_seed;
            o.work += (spec.n_chains * (spec.n_collect + spec.n_discard)) as u64;
            match solo(&other, Mode::Sequential) {
                Ok(Ok(c)) => {
                    o.count("probe_seed_pairs_compared", 1);
                    if c.bits == base.bits {
                        o.violate(
                            "seed_ignored",
                            &format!("{fam}:different-seeds-same-output"),
                            format!("{} ({} chains) gives bit-identical output for seeds {} and {} (xor {:#x})", spec.kind, spec.n_chains, spec.seed, other_seed, spec.seed ^ other_seed),
                        );
                        break;
                    }
                }
                Ok(Err(e)) => {
                    o.violate("run_err", &format!("{fam}:run-Err"), e);
                    break;
                }
                Err(m) => {
                    o.violate("panic", &panic_key(&spec.kind, &m), format!("seed {other_seed}: {m}"));
                    break;
                }
            }
        }
        if want_sample {
            o.sample = Some(json!({"spec": params["spec"], "moves_in_base_run": count_moves(&base)}));
        }
        o
    }
    fn shrink(&self, p: &Value) -> Vec<Value> {
        shrink_spec(&p["spec"]).into_iter().map(|s| with(p, "spec", s)).collect()
    }
    fn rule(&self) -> &'static str {
        "one run = a seeded sampler whose base run moved (>= 2 accepted moves; discrete walk >= 40) compared with the same sampler under structured seed perturbations: every single flipped bit 0..63, offsets 1..n_chains+2, +2^62, complement, affine scramble (72 pairs for MH, 6 sampled for HMC/NUTS); outputs must differ"
    }
    fn components(&self) -> Value {
        json!({"real": ["MetropolisHastings::seed", "HMC::set_seed", "NUTS::set_seed", "samplers' run"], "stub": []})
    }
}
