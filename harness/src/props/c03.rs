//! C03 — NUTS transition is Hoffman-Gelman Algorithm 6 on the leapfrog trajectory.

use super::*;
use crate::gtargets::*;
use crate::refmodels::*;
use crate::zoo::{BF32, BF64};
use burn::prelude::*;
use burn::tensor::backend::AutodiffBackend;
use burn::tensor::Element;
use mcmc_sim::trace::TraceEvent;
use mini_mcmc::nuts::{verif_build_tree, NUTSChain};
use num_traits::Float;
use rand::rngs::SmallRng;
use rand::SeedableRng;

pub fn def() -> PropertyDef {
    PropertyDef {
        id: "C03",
        level: "exploration",
        scenarios: vec![Box::new(NutsTransitions), Box::new(BuildTreeIsolated)],
        assumptions: vec![
            "the draws a transition consumed are taken from the draw trace (hook H4) by role: momentum, Exp(1) draw and slice level, direction per doubling, merge uniform per merge (recursion order), accept uniform per doubling",
            "reference = independent Algorithm 6 in f64 on the analytic gradient; every discrete decision (slice test, divergence test, U-turn signs, selection uniforms) carries a condition-aware margin; a decision inside its margin makes the transition ambiguous: counted, not judged",
        ],
    }
}

#[derive(Clone, Debug, Default)]
pub struct LibTransition {
    pub m: usize,
    pub eps: f64,
    pub pos: Vec<f64>,
    pub mom: Vec<f64>,
    pub exp1: f64,
    pub joint: f64,
    pub logu: f64,
    pub dirs: Vec<i8>,
    pub merge_us: Vec<f64>,
    pub accept: Vec<(f64, usize, usize, bool)>,
    pub leaves: usize,
    pub alpha: f64,
    pub n_alpha: usize,
    pub depth: usize,
    pub n: usize,
    pub eps_new: f64,
    pub eps_bar: f64,
    pub h_bar: f64,
    pub complete: bool,
}

pub fn parse_transitions(ev: &[TraceEvent]) -> Vec<LibTransition> {
    let mut out: Vec<LibTransition> = vec![];
    let mut cur: Option<LibTransition> = None;
    for e in ev {
        match e.role {
            "nuts_step_begin" => {
                if let Some(c) = cur.take() {
                    out.push(c);
                }
                cur = Some(LibTransition { m: e.vals[0] as usize, eps: e.vals[1], ..Default::default() });
            }
            "nuts_pos" => {
                if let Some(c) = cur.as_mut() {
                    c.pos = e.vals.clone();
                }
            }
            "nuts_mom" => {
                if let Some(c) = cur.as_mut() {
                    c.mom = e.vals.clone();
                }
            }
            "nuts_slice" => {
                if let Some(c) = cur.as_mut() {
                    c.exp1 = e.vals[0];
                    c.joint = e.vals[1];
                    c.logu = e.vals[2];
                }
            }
            "nuts_dir" => {
                if let Some(c) = cur.as_mut() {
                    c.dirs.push(e.vals[0] as i8);
                }
            }
            "nuts_merge_u" => {
                if let Some(c) = cur.as_mut() {
                    c.merge_us.push(e.vals[0]);
                }
            }
            "nuts_leaf" => {
                if let Some(c) = cur.as_mut() {
                    c.leaves += 1;
                }
            }
            "nuts_accept_u" => {
                if let Some(c) = cur.as_mut() {
                    c.accept.push((e.vals[0], e.vals[1] as usize, e.vals[2] as usize, e.vals[3] != 0.0));
                }
            }
            "nuts_step_end" => {
                if let Some(c) = cur.as_mut() {
                    c.alpha = e.vals[0];
                    c.n_alpha = e.vals[1] as usize;
                    c.depth = e.vals[2] as usize;
                    c.n = e.vals[3] as usize;
                    c.eps_new = e.vals[4];
                    c.eps_bar = e.vals[5];
                    c.h_bar = e.vals[6];
                    c.complete = true;
                }
            }
            _ => {}
        }
    }
    if let Some(c) = cur.take() {
        out.push(c);
    }
    out
}

fn tvals1<B: Backend>(t: &Tensor<B, 1>) -> Vec<f64> {
    t.to_data().convert::<f64>().to_vec::<f64>().unwrap()
}

/// judge one library transition against the reference; `next` = the chain's position afterwards
pub fn judge_transition(o: &mut Outcome, t: &GTarget, lt: &LibTransition, next: &[f64], eps_b: f64, name: &str) -> bool {
    let site = format!("NUTS::step[{name}]");
    let feed = Feed { dirs: lt.dirs.clone(), merge_us: lt.merge_us.clone(), accept_us: lt.accept.iter().map(|a| a.0).collect(), ..Default::default() };
    let r = nuts_transition(t, &lt.pos, &lt.mom, lt.logu, lt.eps, eps_b, feed, 12);
    o.count("probe_transitions_seen", 1);
    o.count("probe_depth_ge_5", (lt.depth >= 5) as u64);
    o.count("probe_depth_ge_8", (lt.depth >= 8) as u64);
    o.count("probe_depth_ge_11", (lt.depth >= 11) as u64);
    // slice level: logu = joint - Exp(1) draw, joint = log p(x) - |p|^2/2
    let j0 = t.logp(&lt.pos) - 0.5 * lt.mom.iter().map(|v| v * v).sum::<f64>();
    let jtol = 4096.0 * eps_b * (t.logp(&lt.pos).abs() + lt.mom.iter().map(|v| v * v).sum::<f64>() + 1.0);
    if j0.is_finite() && (lt.joint - j0).abs() > jtol {
        o.violate("slice_level", &format!("{site}:initial-joint"), format!("traced joint {} but log p(x) - |p|^2/2 = {j0}", lt.joint));
        return false;
    }
    if (lt.logu - (lt.joint - lt.exp1)).abs() > 64.0 * eps_b * (lt.joint.abs() + lt.exp1.abs() + 1.0) || !(lt.exp1 >= 0.0) {
        o.violate("slice_level", &format!("{site}:slice-level"), format!("slice level {} is not joint {} minus the Exp(1) draw {}", lt.logu, lt.joint, lt.exp1));
        return false;
    }
    if let Some(why) = &r.ambiguous {
        o.count("ambiguous_not_judged", 1);
        let _ = why;
        return true;
    }
    match r.stop {
        Stop::Divergence => o.count("probe_stopped_by_divergence", 1),
        Stop::SubtreeStopped => o.count("probe_stopped_in_subtree", 1),
        Stop::UTurn => o.count("probe_stopped_by_uturn", 1),
        Stop::FeedExhausted => {}
    }
    let detail = |what: &str| format!("{what} [{:?} d={}, eps={:e}, m={}, x={:?}, p={:?}, log u={}, dirs={:?}]", t.kind, t.d, lt.eps, lt.m, lt.pos, lt.mom, lt.logu, lt.dirs);
    if r.stop == Stop::FeedExhausted {
        o.violate("stopped_early", &format!("{site}:stopped-doubling-too-early"), detail(&format!("the library stopped after {} doublings although neither a U-turn nor a divergence nor a stopped sub-tree occurred (Algorithm 6 continues)", lt.depth)));
        return false;
    }
    if r.depth != lt.depth || r.depth != lt.dirs.len() {
        o.violate("depth", &format!("{site}:tree-depth"), detail(&format!("library performed {} doublings, Algorithm 6 stops after {} ({:?})", lt.dirs.len(), r.depth, r.stop)));
        return false;
    }
    if let Some(e) = &r.structure_error {
        o.violate("structure", &format!("{site}:merge-structure"), detail(e));
        return false;
    }
    if r.leapfrogs != lt.leaves {
        o.violate("structure", &format!("{site}:leapfrog-count"), detail(&format!("library took {} leapfrog steps, Algorithm 6 takes {}", lt.leaves, r.leapfrogs)));
        return false;
    }
    if r.n != lt.n {
        o.violate("count_n", &format!("{site}:slice-admissible-count"), detail(&format!("library counted n = {}, Algorithm 6 counts {}", lt.n, r.n)));
        return false;
    }
    if r.n_alpha != lt.n_alpha || (lt.alpha.is_finite() && (r.alpha - lt.alpha).abs() > r.alpha_tol + 1e-4 * (r.n_alpha as f64) * if eps_b > 1e-10 { 1.0 } else { 1e-6 }) {
        o.violate("alpha", &format!("{site}:acceptance-statistic"), detail(&format!("library reports alpha = {} over {} leaves, the last doubling of Algorithm 6 gives {} over {}", lt.alpha, lt.n_alpha, r.alpha, r.n_alpha)));
        return false;
    }
    let err = next.iter().zip(r.next.iter()).fold(0.0f64, |m, (a, b)| if (a - b).is_nan() { f64::INFINITY } else { m.max((a - b).abs()) });
    if err > r.next_tol {
        // is it at least a slice-admissible point of the trajectory?
        let on_traj = r.leaves.iter().any(|(x, j, tol)| *j > lt.logu && x.iter().zip(next.iter()).all(|(a, b)| (a - b).abs() <= *tol));
        let key = if on_traj { format!("{site}:wrong-candidate-selected") } else { format!("{site}:next-state-not-on-trajectory") };
        o.violate("next_state", &key, detail(&format!("next state {next:?} but Algorithm 6 with the same draws gives {:?} (error {err:e}, tolerance {:e}, moved: {})", r.next, r.next_tol, r.moved)));
        return false;
    }
    o.count("probe_transitions_judged", 1);
    o.count("probe_moved", r.moved as u64);
    true
}

/// The acceptance statistic (sum over the leaves of the last doubling, leaf count) Algorithm 6 assigns
/// to a traced transition, with its tolerance; None when the reference cannot decide the transition
/// (a decision inside its margin) or disagrees on the tree's shape (judged by C03, not here).
pub fn reference_statistic(t: &GTarget, lt: &LibTransition, eps_b: f64) -> Option<(f64, usize, f64)> {
    let feed = Feed { dirs: lt.dirs.clone(), merge_us: lt.merge_us.clone(), accept_us: lt.accept.iter().map(|a| a.0).collect(), ..Default::default() };
    let r = nuts_transition(t, &lt.pos, &lt.mom, lt.logu, lt.eps, eps_b, feed, 12);
    if r.ambiguous.is_some() || r.structure_error.is_some() || r.stop == Stop::FeedExhausted || r.depth != lt.depth || r.n_alpha != lt.n_alpha {
        return None;
    }
    let tol = r.alpha_tol + 1e-4 * (r.n_alpha as f64) * if eps_b > 1e-10 { 1.0 } else { 1e-6 };
    Some((r.alpha, r.n_alpha, tol))
}

/// The run was cut off by the evaluation budget in the middle of a transition. Decide whether that
/// is a hang: if Algorithm 6, fed the draws traced so far, stops (U-turn, stopped sub-tree or
/// divergence) at an earlier doubling than the library had already reached, the library kept
/// doubling after the stopping point. Otherwise the trajectory is merely long: not judged.
pub fn judge_cut_off_transition(o: &mut Outcome, t: &GTarget, lt: &LibTransition, eps_b: f64, name: &str) {
    if lt.dirs.is_empty() || lt.pos.is_empty() || lt.mom.is_empty() {
        o.count("cut_off_before_first_doubling_not_judged", 1);
        return;
    }
    // the accept uniform of the doubling in progress has not been drawn yet: feed a neutral one
    let mut accept: Vec<f64> = lt.accept.iter().map(|a| a.0).collect();
    while accept.len() < lt.dirs.len() {
        accept.push(1.0);
    }
    // merge uniforms of the unfinished doubling may be missing: pad (selection does not affect stopping)
    let mut merges = lt.merge_us.clone();
    merges.extend(std::iter::repeat(0.5).take(1 << 16));
    let done = lt.accept.len(); // completed doublings
    let feed = Feed { dirs: lt.dirs[..done.min(lt.dirs.len())].to_vec(), merge_us: merges, accept_us: accept, ..Default::default() };
    if feed.dirs.is_empty() {
        o.count("cut_off_long_trajectory_not_judged", 1);
        return;
    }
    let r = nuts_transition(t, &lt.pos, &lt.mom, lt.logu, lt.eps, eps_b, feed, 40);
    if r.ambiguous.is_some() {
        o.count("ambiguous_not_judged", 1);
        return;
    }
    if r.stop != Stop::FeedExhausted && r.depth <= done {
        o.violate(
            "hang",
            &format!("NUTS::step[{name}]:keeps-doubling-after-the-stopping-point"),
            format!("evaluation budget exhausted in doubling {} of a transition that Algorithm 6 ends after {} doublings ({:?}) [{:?} d={}, eps={:e}, x={:?}]", lt.dirs.len(), r.depth, r.stop, t.kind, t.d, lt.eps, lt.pos),
        );
    } else {
        o.count("cut_off_long_trajectory_not_judged", 1);
    }
}

fn nuts_run<T, B>(params: &Value, ws: bool, eps_b: f64, name: &'static str) -> Outcome
where
    T: Float + burn::tensor::ElementConversion + Element + rand_distr::uniform::SampleUniform + num_traits::FromPrimitive,
    B: AutodiffBackend,
    rand_distr::StandardNormal: rand::distr::Distribution<T>,
    rand_distr::StandardUniform: rand_distr::Distribution<T>,
    rand_distr::Exp1: rand_distr::Distribution<T>,
{
    let mut o = Outcome::default();
    let mut g = Gen::new(pu(params, "gseed"));
    let mut target = gen_smooth(&mut g, true);
    let wide = params.get("wide").and_then(|w| w.as_bool()).unwrap_or(false);
    if wide {
        // a very wide Gaussian: with n_discard = 0 the step size is 1 from the second transition on,
        // three orders of magnitude below the scale: trees of depth 9..11
        let d = g.usize(1, 2);
        target = GTarget::new(GKind::Gauss, d);
        let s = g.f64_in(300.0, 800.0);
        target.a = (0..d * d).map(|i| if i % (d + 1) == 0 { 1.0 / (s * s * (1.0 + (i as f64) * 0.3)) } else { 0.0 }).collect();
    }
    // a target with bounded support / a NaN region: leaves of -inf or NaN energy are outside the
    // slice AND end the doubling (both comparisons of Algorithm 6 are false for NaN)
    let support = params.get("support").and_then(|w| w.as_bool()).unwrap_or(false);
    let mut support_init = None;
    if support {
        target = crate::props::c14::gen_support_target(&mut g);
        support_init = Some(crate::props::c14::support_start(&mut g, &target));
        o.count("probe_bounded_support_runs", 1);
    }
    // an additive constant of the log-density (f64 runs only: in f32 it would legitimately swamp the energies)
    if params.get("offset").is_some() {
        target.offset = pf(params, "offset");
        o.count("probe_log_density_offset_runs", (target.offset != 0.0) as u64);
    }
    target.eval_budget = 60_000;
    let d = target.d;
    let scale0 = if wide { 50.0 } else { pf(params, "start_scale") };
    let init: Vec<T> = match &support_init {
        Some(s) => s.iter().map(|x| T::from(*x).unwrap()).collect(),
        None => (0..d).map(|_| T::from(g.normal() * scale0).unwrap()).collect(),
    };
    let acc = T::from(pf(params, "accept")).unwrap();
    let (ncol, ndis) = (pus(params, "n_collect"), pus(params, "n_discard"));
    let mut chain = NUTSChain::<T, B, GTarget>::new(target.clone(), init, acc).set_seed(pu(params, "seed"));
    o.hash = str_hash(&params.to_string());
    // optional first segment of a two-call history: run, then the caller assigns a new start point
    // through the public `position` field, then the judged run follows
    if params.get("reposition").and_then(|v| v.as_bool()).unwrap_or(false) {
        mcmc_sim::trace::start();
        let r0 = std::panic::catch_unwind(std::panic::AssertUnwindSafe(|| chain.run(g.usize(1, 3), g.usize(0, 3))));
        let ev0 = mcmc_sim::trace::stop();
        if r0.is_err() {
            let _ = mcmc_sim::sim::take_last_panic();
            return o;
        }
        // judge the first segment too
        let trs0 = parse_transitions(&ev0);
        let end0 = tvals1(&chain.position);
        for (i, lt) in trs0.iter().enumerate() {
            if !lt.complete {
                continue;
            }
            let next: &[f64] = if i + 1 < trs0.len() { &trs0[i + 1].pos } else { &end0 };
            o.work += 1;
            if !judge_transition(&mut o, &target, lt, next, eps_b, name) {
                return o;
            }
        }
        let newpos: Vec<f64> = if support {
            crate::props::c14::support_start(&mut g, &target).iter().map(|v| (*v as f32) as f64).collect()
        } else {
            (0..d).map(|_| ((g.normal() * scale0 * 2.0) as f32) as f64).collect()
        };
        chain.position = Tensor::<B, 1>::from_data(TensorData::new(newpos, [d]), &chain.position.device());
        o.count("probe_position_reassigned_between_runs", 1);
    }
    mcmc_sim::trace::start();
    let _ = mcmc_sim::sim::take_last_panic();
    let r = std::panic::catch_unwind(std::panic::AssertUnwindSafe(|| chain.run(ncol, ndis)));
    let ev = mcmc_sim::trace::stop();
    if r.is_err() {
        let m = mcmc_sim::sim::take_last_panic().unwrap_or_default();
        if m.contains("VERIF-EVAL-BUDGET") {
            o.count("skipped_evaluation_budget", 1);
            let trs = parse_transitions(&ev);
            match trs.last() {
                Some(lt) if !lt.complete => judge_cut_off_transition(&mut o, &target, lt, eps_b, name),
                None => o.violate("hang", &format!("NUTS::run[{name}]:initial-step-size-search-unbounded"), "evaluation budget exhausted before the first transition".into()),
                _ => {}
            }
            return o;
        }
        let loc = m.rsplit(" @ ").next().unwrap_or("").to_string();
        o.violate("panic", &format!("NUTS::run[{name}]:panic@{loc}"), m);
        return o;
    }
    let trs = parse_transitions(&ev);
    let final_pos = tvals1(&chain.position);
    let mut samples = vec![];
    for (i, lt) in trs.iter().enumerate() {
        if !lt.complete {
            continue;
        }
        let next: &[f64] = if i + 1 < trs.len() { &trs[i + 1].pos } else { &final_pos };
        o.work += 1;
        let ok = judge_transition(&mut o, &target, lt, next, eps_b, name);
        o.hash = mix(o.hash, mix(lt.depth as u64, lt.n as u64));
        if ws && samples.len() < 3 {
            samples.push(json!({"m": lt.m, "eps": lt.eps, "depth": lt.depth, "n": lt.n, "dirs": lt.dirs, "alpha_over_n_alpha": [lt.alpha, lt.n_alpha]}));
        }
        if !ok {
            break;
        }
    }
    o.nontrivial = trs.len() >= 1;
    if ws {
        o.sample = Some(json!({"target": target.describe(), "backend": name, "transitions": samples}));
    }
    o
}

struct NutsTransitions;
impl Scenario for NutsTransitions {
    fn recheckable(&self, p: &Value) -> bool {
        // f32 gradients of the NdArray backend are not repeatable bit for bit (see Scenario::recheckable)
        ps(p, "float") != "f32"
    }
    fn name(&self) -> &'static str {
        "nuts_transitions"
    }
    fn runs(&self, tier: Tier) -> u64 {
        tier.pick(6400, 200_000)
    }
    fn generate(&self, g: &mut Gen, _t: Tier, _i: u64) -> Value {
        if g.bool(1, 40) {
            return json!({"float": "f64", "wide": true, "gseed": g.u64(), "seed": g.u64(), "n_collect": 3, "n_discard": 0, "accept": fbits(0.8), "start_scale": fbits(1.0)});
        }
        let float = *g.pick(&["f64", "f64", "f64", "f32"]);
        // unnormalised densities carry arbitrary additive constants: 1 run in 5 (f64) has one of
        // magnitude 1e2..1e9, either sign
        let offset = if float == "f64" && g.bool(1, 5) { g.log_uniform(1e2, 1e9) * if g.bool(1, 2) { 1.0 } else { -1.0 } } else { 0.0 };
        json!({"float": float, "gseed": g.u64(), "seed": g.u64(), "n_collect": g.usize(1, 6), "n_discard": g.usize(0, 14), "accept": fbits(g.f64_in(0.55, 0.97)), "start_scale": fbits(g.log_uniform(0.1, 4.0)), "reposition": g.bool(1, 4), "support": g.bool(1, 6), "offset": fbits(offset)})
    }
    fn execute(&self, p: &Value, ws: bool) -> Outcome {
        if ps(p, "float") == "f32" {
            nuts_run::<f32, BF32>(p, ws, f32::EPSILON as f64, "f32")
        } else {
            nuts_run::<f64, BF64>(p, ws, f64::EPSILON, "f64")
        }
    }
    fn shrink(&self, p: &Value) -> Vec<Value> {
        let mut out = vec![];
        shrink_int(p, "n_discard", 0, &mut out);
        shrink_int(p, "n_collect", 1, &mut out);
        out
    }
    fn rule(&self) -> &'static str {
        "one run = a seeded NUTSChain::run (1..6 kept, 0..14 warm-up transitions, so step sizes from the start-up heuristic through dual averaging to the frozen one) on a generated target (Gaussians d 1..8 with random precision, library Gaussian/Rosenbrock, Student-t, quartic, funnel), f64 or f32; every transition replayed through the independent Algorithm 6 with the traced draws; distinct = hash of (depth, n) sequence and parameters"
    }
    fn components(&self) -> Value {
        json!({"real": ["NUTSChain::run/step", "build_tree", "leapfrog", "stop_criterion", "find_reasonable_epsilon", "burn autodiff"], "stub": ["dual targets (burn + analytic f64)"]})
    }
}

// ---- build_tree in isolation: depths 0..10, both directions, arbitrary (logu, joint_0) ----------
struct BuildTreeIsolated;

fn bt_run<T, B>(params: &Value, ws: bool, eps_b: f64, name: &'static str) -> Outcome
where
    T: Float + burn::tensor::ElementConversion + Element,
    B: AutodiffBackend,
{
    use mini_mcmc::distributions::GradientTarget;
    let mut o = Outcome::default();
    let mut g = Gen::new(pu(params, "gseed"));
    let mut target = gen_smooth(&mut g, true);
    let depth = pus(params, "depth");
    let v: i8 = if pb(params, "forward") { 1 } else { -1 };
    let mut eps = pf(params, "eps");
    // Exact ties. Isotropic Gaussian with precision a and step size eps such that a eps^2 = 2, started at
    // the mode with an integer momentum: one leapfrog step maps (0, p) to (eps p, 0) EXACTLY in f32 and
    // f64, the orbit has period 4, so U-turn products are exactly 0 at every second point. Algorithm 6
    // continues while both products are >= 0: a tie is not a U-turn.
    let exact = params.get("exact_tie").and_then(|v| v.as_bool()).unwrap_or(false);
    let mut exact_xp = None;
    if exact {
        let d = g.usize(1, 4);
        let (a, e) = *g.pick(&[(2.0, 1.0), (0.5, 2.0), (8.0, 0.5)]);
        target = GTarget::new(GKind::Gauss, d);
        target.a = (0..d * d).map(|i| if i % (d + 1) == 0 { a } else { 0.0 }).collect();
        eps = e;
        let mut p: Vec<f64> = (0..d).map(|_| g.range(0, 6) as f64 - 3.0).collect();
        if p.iter().all(|v| *v == 0.0) {
            p[0] = 1.0;
        }
        exact_xp = Some((vec![0.0; d], p));
        o.count("probe_exact_tie_cases", 1);
    }
    target.eval_budget = 10_000;
    let d = target.d;
    let (x, p): (Vec<f64>, Vec<f64>) = match exact_xp {
        Some(xp) => xp,
        None => ((0..d).map(|_| (g.normal() * pf(params, "start_scale")) as f32 as f64).collect(), (0..d).map(|_| g.normal() as f32 as f64).collect()),
    };
    if exact {
        // the tie semantics of the criterion itself, at the two orbit points one step apart
        let dev: <B as burn::tensor::backend::Backend>::Device = Default::default();
        let t1 = |v: &[f64]| Tensor::<B, 1>::from_data(TensorData::new(v.to_vec(), [d]), &dev);
        let x1: Vec<f64> = p.iter().map(|v| v * eps).collect();
        let zero = vec![0.0; d];
        // minus = (0, p), plus = (eps p, 0): (x+ - x-).p- = eps |p|^2 > 0, (x+ - x-).p+ = 0 exactly
        let cont = mini_mcmc::nuts::verif_stop_criterion::<B>(t1(&zero), t1(&x1), t1(&p), t1(&zero));
        if !cont {
            o.violate("uturn_tie", &format!("stop_criterion[{name}]:tie-counted-as-u-turn"), format!("x- = {zero:?}, x+ = {x1:?}, p- = {p:?}, p+ = {zero:?}: the products are {} and exactly 0; Algorithm 6 continues while both are >= 0, the library stops", eps * p.iter().map(|v| v * v).sum::<f64>()));
            o.hash = str_hash(&params.to_string());
            o.nontrivial = true;
            return o;
        }
    }
    let joint0 = target.logp(&x) - 0.5 * p.iter().map(|a| a * a).sum::<f64>();
    let logu_off = pf(params, "logu_offset");
    let logu = ((joint0 - logu_off) as f32) as f64;
    let joint0_t = (joint0 as f32) as f64; // what the library receives (exactly representable in both)
    let dev = Default::default();
    let xt = Tensor::<B, 1>::from_data(TensorData::new(x.clone(), [d]), &dev);
    let pt = Tensor::<B, 1>::from_data(TensorData::new(p.clone(), [d]), &dev);
    let (_, gt) = <GTarget as GradientTarget<T, B>>::unnorm_logp_and_grad(&target, xt.clone());
    let mut rng = SmallRng::seed_from_u64(pu(params, "seed"));
    let eps_t = T::from(eps).unwrap();
    let eps_used = num_traits::ToPrimitive::to_f64(&eps_t).unwrap();
    mcmc_sim::trace::start();
    let _ = mcmc_sim::sim::take_last_panic();
    let r = std::panic::catch_unwind(std::panic::AssertUnwindSafe(|| verif_build_tree::<B, T, GTarget>(xt, pt, gt, T::from(logu).unwrap(), v, depth, eps_t, &target, T::from(joint0_t).unwrap(), &mut rng)));
    let ev = mcmc_sim::trace::stop();
    o.hash = str_hash(&params.to_string());
    o.nontrivial = true;
    o.work = 1 << depth;
    let site = format!("build_tree[{name}]");
    let Ok(out) = r else {
        let m = mcmc_sim::sim::take_last_panic().unwrap_or_default();
        if m.contains("VERIF-EVAL-BUDGET") {
            return o;
        }
        let loc = m.rsplit(" @ ").next().unwrap_or("").to_string();
        o.violate("panic", &format!("{site}:panic@{loc}"), m);
        return o;
    };
    let merge_us: Vec<f64> = ev.iter().filter(|e| e.role == "nuts_merge_u").map(|e| e.vals[0]).collect();
    let lib_leaves = ev.iter().filter(|e| e.role == "nuts_leaf").count();
    let feed = Feed { merge_us, ..Default::default() };
    let mut c = Ctx { t: &target, eps: eps_used, eps_b, logu, joint0: joint0_t, feed, ambiguous: None, structure_error: None, leaves: vec![], max_joint_err: 0.0, leapfrogs: 0, exact };
    let start = c.start(&x, &p);
    let tr = c.build_tree(&start, v, depth);
    if c.ambiguous.is_some() {
        o.count("ambiguous_not_judged", 1);
        return o;
    }
    let (lm, lp, lc, ln, ls, la, lna) = (tvals1(&out.0), tvals1(&out.3), tvals1(&out.6), out.9, out.10, num_traits::ToPrimitive::to_f64(&out.11).unwrap_or(f64::NAN), out.12);
    let detail = |what: String| format!("{what} [{:?} d={d}, depth={depth}, v={v}, eps={eps_used:e}, x={x:?}, p={p:?}, log u={logu}]", target.kind);
    if let Some(e) = &c.structure_error {
        o.violate("structure", &format!("{site}:merge-structure"), detail(e.clone()));
        return o;
    }
    if c.feed.mi != c.feed.merge_us.len() || c.leapfrogs != lib_leaves {
        o.violate("structure", &format!("{site}:leapfrog-count"), detail(format!("library: {lib_leaves} leapfrogs / {} merges, Algorithm 6: {} / {}", c.feed.merge_us.len(), c.leapfrogs, c.feed.mi)));
        return o;
    }
    if ln != tr.n || ls != tr.s {
        o.violate("count_n", &format!("{site}:n-or-stop-flag"), detail(format!("library returns n' = {ln}, s' = {ls}; Algorithm 6: n' = {}, s' = {}", tr.n, tr.s)));
        return o;
    }
    if lna != tr.n_alpha || (la.is_finite() && (la - tr.alpha).abs() > c.max_joint_err * tr.n_alpha as f64 + 1e-4 * tr.n_alpha as f64 * if eps_b > 1e-10 { 1.0 } else { 1e-6 }) {
        o.violate("alpha", &format!("{site}:acceptance-statistic"), detail(format!("library alpha = {la} over {lna}; Algorithm 6: {} over {}", tr.alpha, tr.n_alpha)));
        return o;
    }
    let md = |a: &[f64], b: &[f64]| a.iter().zip(b).fold(0.0f64, |m, (x, y)| if (x - y).is_nan() { f64::INFINITY } else { m.max((x - y).abs()) });
    for (what, lib, rf) in [("leftmost point", &lm, &tr.minus), ("rightmost point", &lp, &tr.plus)] {
        if rf.x.iter().all(|z| z.is_finite()) && md(lib, &rf.x) > c.pos_tol(rf) {
            o.violate("endpoints", &format!("{site}:tree-endpoints"), detail(format!("{what}: library {lib:?}, Algorithm 6 {:?}", rf.x)));
            return o;
        }
    }
    // the candidate is only meaningful when the tree holds an admissible point
    if tr.n > 0 && tr.cand.x.iter().all(|z| z.is_finite()) && md(&lc, &tr.cand.x) > c.pos_tol(&tr.cand) {
        o.violate("next_state", &format!("{site}:wrong-candidate-selected"), detail(format!("candidate: library {lc:?}, Algorithm 6 {:?} (n' = {})", tr.cand.x, tr.n)));
        return o;
    }
    o.count("probe_trees_judged", 1);
    o.count("probe_tree_with_admissible_points", (tr.n > 0) as u64);
    o.count("probe_tree_stopped_early", (!tr.s) as u64);
    o.count("probe_tree_diverged", tr.diverged as u64);
    o.count(&format!("probe_depth_{depth}"), 1);
    if ws {
        o.sample = Some(json!({"target": target.describe(), "depth": depth, "v": v, "eps": eps_used, "n": tr.n, "s": tr.s}));
    }
    o
}

impl Scenario for BuildTreeIsolated {
    fn recheckable(&self, p: &Value) -> bool {
        // f32 gradients of the NdArray backend are not repeatable bit for bit (see Scenario::recheckable)
        ps(p, "float") != "f32"
    }
    fn name(&self) -> &'static str {
        "build_tree_isolated"
    }
    fn runs(&self, tier: Tier) -> u64 {
        tier.pick(5600, 150_000)
    }
    fn generate(&self, g: &mut Gen, _t: Tier, _i: u64) -> Value {
        let depth = match g.range(0, 19) {
            0..=11 => g.usize(0, 4),
            12..=17 => g.usize(5, 7),
            _ => g.usize(8, 10),
        };
        let eps = match g.range(0, 9) {
            0 => g.log_uniform(1.0, 50.0), // diverges / U-turns immediately
            1 | 2 => g.log_uniform(1e-3, 1e-2),
            _ => g.log_uniform(1e-2, 0.6),
        };
        // slice level: usually an Exp(1)-like distance below the start, sometimes far below (so that
        // the divergence bound is the deciding test) or above the start (no admissible point)
        let off = match g.range(0, 9) {
            0 => g.f64_in(900.0, 1100.0),
            1 => -g.f64_in(0.0, 3.0),
            _ => -(1.0 - g.f64()).ln(),
        };
        if g.bool(1, 12) {
            return json!({"float": *g.pick(&["f64", "f32"]), "gseed": g.u64(), "seed": g.u64(), "depth": g.usize(1, 4), "forward": g.bool(1, 2), "eps": fbits(1.0), "start_scale": fbits(1.0), "logu_offset": fbits(*g.pick(&[64.0, 256.0, 4.0])), "exact_tie": true});
        }
        json!({"float": *g.pick(&["f64", "f64", "f32"]), "gseed": g.u64(), "seed": g.u64(), "depth": depth, "forward": g.bool(1, 2), "eps": fbits(eps), "start_scale": fbits(g.log_uniform(0.1, 4.0)), "logu_offset": fbits(off)})
    }
    fn execute(&self, p: &Value, ws: bool) -> Outcome {
        if ps(p, "float") == "f32" {
            bt_run::<f32, BF32>(p, ws, f32::EPSILON as f64, "f32")
        } else {
            bt_run::<f64, BF64>(p, ws, f64::EPSILON, "f64")
        }
    }
    fn shrink(&self, p: &Value) -> Vec<Value> {
        let mut out = vec![];
        shrink_int(p, "depth", 0, &mut out);
        out
    }
    fn rule(&self) -> &'static str {
        "one run = the private build_tree (through its verification wrapper) for depth 0..10, both directions, step sizes 1e-3..50, slice levels from above the start to 1000 below it, on a generated target; n', s', alpha/n_alpha, both end points and the selected candidate compared with the reference given the traced merge uniforms; distinct = parameter hash"
    }
    fn components(&self) -> Value {
        json!({"real": ["build_tree", "leapfrog", "stop_criterion", "GradientTarget::unnorm_logp_and_grad (autodiff)"], "stub": ["dual targets"]})
    }
}
