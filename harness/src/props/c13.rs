//! C13 — streaming trackers and progress R-hat equal batch statistics of the same draws.

use super::*;
use crate::props::c10::sim_failure_violation;
use mcmc_sim::sim::run_sim;
use mini_mcmc::core::{run_chain_progress, MarkovChain};
use mini_mcmc::stats::{collect_rhat, ChainStats, ChainTracker, MultiChainTracker};

pub fn def() -> PropertyDef {
    PropertyDef {
        id: "C13",
        level: "exploration",
        scenarios: vec![Box::new(TrackerHistories), Box::new(ProgressSnapshots)],
        assumptions: vec![
            "tolerances come from the f32 forward-error bound of the running mean / mean-of-squares recurrences, 8*n*eps32*(1+(mu/sigma)^2); inputs whose own bound exceeds 2% are generated but not judged (counted)",
            "which prefix a progress snapshot covers is decided by the simulated clock and the seeded schedule; the listener is a stub",
        ],
    }
}

/// deterministic pseudo-random state of chain c at step k (k >= 1), parameter j
fn state_val(seed: u64, c: usize, k: usize, j: usize, mu: f64, sigma: f64, shift: f64, hold: usize) -> f64 {
    // runs of repeated states: the value changes only every `hold` steps
    let kk = if hold > 1 { (k - 1) / hold } else { k - 1 };
    let mut g = Gen::new(mix(mix(seed, c as u64), mix(kk as u64, j as u64)));
    mu + shift * c as f64 * sigma + sigma * g.normal()
}

trait TElt: Copy + num_traits::Num + num_traits::ToPrimitive + num_traits::FromPrimitive + PartialOrd + Clone + PartialEq + Send + Sync + std::fmt::Debug + 'static {
    fn of(x: f64) -> Self;
    const NAME: &'static str;
}
impl TElt for f64 {
    fn of(x: f64) -> f64 {
        x
    }
    const NAME: &'static str = "f64";
}
impl TElt for f32 {
    fn of(x: f64) -> f32 {
        x as f32
    }
    const NAME: &'static str = "f32";
}
impl TElt for i32 {
    fn of(x: f64) -> i32 {
        x.round() as i32
    }
    const NAME: &'static str = "i32";
}
impl TElt for i16 {
    fn of(x: f64) -> i16 {
        x.round().clamp(-30000.0, 30000.0) as i16
    }
    const NAME: &'static str = "i16";
}
impl TElt for u8 {
    fn of(x: f64) -> u8 {
        x.round().clamp(0.0, 255.0) as u8
    }
    const NAME: &'static str = "u8";
}

struct Batch {
    n: usize,
    mean: Vec<f64>,
    var: Vec<f64>, // unbiased
}
fn batch(xs: &[Vec<f64>], p: usize) -> Batch {
    let n = xs.len();
    let mut mean = vec![0.0; p];
    for x in xs {
        for j in 0..p {
            mean[j] += x[j];
        }
    }
    for m in mean.iter_mut() {
        *m /= n as f64;
    }
    let mut var = vec![0.0; p];
    for x in xs {
        for j in 0..p {
            var[j] += (x[j] - mean[j]).powi(2);
        }
    }
    for v in var.iter_mut() {
        *v /= (n as f64 - 1.0).max(1.0);
    }
    Batch { n, mean, var }
}
/// classical R-hat of chains with equal n: sqrt(var+/W), var+ = (n-1)/n W + B/n, B/n = sum (mean_c - mean)^2/(C-1)
fn batch_rhat(bs: &[Batch], p: usize) -> Vec<f64> {
    let c = bs.len() as f64;
    let n = bs[0].n as f64;
    (0..p)
        .map(|j| {
            let w = bs.iter().map(|b| b.var[j]).sum::<f64>() / c;
            let gm = bs.iter().map(|b| b.mean[j]).sum::<f64>() / c;
            let b_over_n = bs.iter().map(|b| (b.mean[j] - gm).powi(2)).sum::<f64>() / (c - 1.0);
            (((n - 1.0) / n * w + b_over_n) / w).sqrt()
        })
        .collect()
}

/// A parameter that has not moved yet in any chain (every chain sits on its own small integer, exactly
/// representable, so count, mean and mean square are exact and the within-chain variance is exactly 0) while
/// the chain means differ: sqrt(var+/W) of those draws is +inf, and both R-hat routes have to say so (the
/// remaining parameters move, with distinct integers per update, and keep a finite R-hat).
fn frozen_parameter_check<T: TElt>(o: &mut Outcome, nc: usize, p: usize, seed: u64) {
    if nc < 2 {
        return;
    }
    let n = 2 + (mix(seed, 0xf0) % 40) as usize;
    let frozen = (mix(seed, 0xf1) % p as u64) as usize;
    let v = |c: usize, k: usize, j: usize| -> f64 { if j == frozen { (c % 7) as f64 } else { ((c * 3 + k * (j + 1) + (mix(seed, (c * 64 + k) as u64) % 5) as usize) % 11) as f64 } };
    let mut trackers: Vec<ChainTracker> = (0..nc).map(|c| ChainTracker::new(p, &(0..p).map(|j| T::of(v(c, 0, j))).collect::<Vec<T>>())).collect();
    let mut multi = MultiChainTracker::new(nc, p);
    for k in 1..=n {
        let mut flat: Vec<T> = vec![];
        for c in 0..nc {
            let x: Vec<T> = (0..p).map(|j| T::of(v(c, k, j))).collect();
            if trackers[c].step(&x).is_err() {
                return;
            }
            flat.extend(x);
        }
        if multi.step(&flat).is_err() {
            return;
        }
    }
    let stats: Vec<ChainStats> = trackers.iter().map(|t| t.stats()).collect();
    let refs: Vec<&ChainStats> = stats.iter().collect();
    let got = collect_rhat(&refs);
    o.count("probe_frozen_parameter_rhat", 1);
    if !(got[frozen] == f32::INFINITY) {
        o.violate("collect_rhat", "collect_rhat:zero-within-variance", format!("{nc} chains x {p} params, n = {n}: parameter {frozen} sits on a different constant in every chain (W = 0, var+ > 0): sqrt(var+/W) = inf but collect_rhat[{frozen}] = {}", got[frozen]));
        return;
    }
    if let Ok(r) = multi.rhat() {
        if !(r[frozen] == f32::INFINITY) {
            o.violate("multi_rhat", "MultiChainTracker::rhat:zero-within-variance", format!("{nc} chains x {p} params, n = {n}: parameter {frozen} sits on a different constant in every chain: sqrt(var+/W) = inf but MultiChainTracker::rhat[{frozen}] = {}", r[frozen]));
        }
    }
}

fn tracker_histories<T: TElt>(params: &Value, ws: bool) -> Outcome {
    let mut o = Outcome::default();
    let (nc, p, n) = (pus(params, "chains"), pus(params, "params"), pus(params, "n"));
    let (mu, sigma, shift, hold) = (pf(params, "mu"), pf(params, "sigma"), pf(params, "shift"), pus(params, "hold"));
    let seed = pu(params, "gseed");
    // the values actually fed (after conversion to T and to f32, which is what the trackers see)
    // signed zeros: the last parameter alternates between +0.0 and -0.0 while the others repeat: numerically
    // the same state ("differs" is a statement about values), so no move is to be counted
    let zero_flip = params.get("zero_flip").and_then(|v| v.as_bool()).unwrap_or(false);
    let hold = if zero_flip { hold.max(3) } else { hold };
    let sv = move |c: usize, k: usize, j: usize| -> f64 {
        if zero_flip && j == p - 1 {
            if k % 2 == 0 {
                -0.0
            } else {
                0.0
            }
        } else {
            state_val(seed, c, k, j, mu, sigma, shift, hold)
        }
    };
    let val = |c: usize, k: usize, j: usize| -> f64 { T::of(sv(c, k, j)).to_f32().unwrap() as f64 };
    let judged = true;
    let mut trackers: Vec<ChainTracker> = vec![];
    let mut multi = MultiChainTracker::new(nc, p);
    let mut all: Vec<Vec<Vec<f64>>> = vec![vec![]; nc];
    for c in 0..nc {
        let init: Vec<T> = (0..p).map(|j| T::of(state_val(seed, c, 1, j, mu, sigma, shift, 1) + 0.5)).collect();
        trackers.push(ChainTracker::new(p, &init));
    }
    let mut prev_p: Vec<f32> = vec![f32::NAN; nc];
    let mut prev_multi_p = multi.p_accept;
    let mut prev_states: Vec<Vec<f64>> = vec![vec![]; nc];
    // MultiChainTracker's "previous state" starts as zeros
    let mut prev_multi_states: Vec<Vec<f64>> = vec![vec![0.0; p]; nc];
    // fault: the caller offers a state of the wrong length now and then (before the first update too); the
    // tracker refuses it (Err) and must stay exactly as it was: count, mean, variance and the acceptance
    // average keep describing the states it was actually fed
    let refuse = params.get("refused_updates").and_then(|v| v.as_bool()).unwrap_or(false);
    for k in 1..=n {
        if refuse && (k == 1 || mix(seed ^ 0xbad, k as u64) % 5 == 0) {
            // (a state that is too LONG is accepted by the library - its first p values are used - and is not
            // used here: whether that is right is not part of the property; a state that is too SHORT cannot
            // be absorbed and is refused)
            for c in 0..nc {
                let short: Vec<T> = (0..p - 1).map(|j| T::of(sv(c, k, j))).collect();
                if trackers[c].step(&short).is_ok() {
                    o.violate("short_state_accepted", "ChainTracker::step:short-state-accepted", format!("a state of length {} was accepted by a tracker of {p} parameters", short.len()));
                    return o;
                }
            }
            let short_flat: Vec<T> = (0..nc * p - 1).map(|j| T::of(j as f64)).collect();
            if multi.step(&short_flat).is_ok() {
                o.violate("short_state_accepted", "MultiChainTracker::step:short-state-accepted", format!("{} values accepted by a tracker of {nc} x {p}", short_flat.len()));
                return o;
            }
            o.count("fault_wrong_length_update_refused", 1);
        }
        let mut flat: Vec<T> = vec![];
        for c in 0..nc {
            let x: Vec<T> = (0..p).map(|j| T::of(sv(c, k, j))).collect();
            let xf: Vec<f64> = (0..p).map(|j| val(c, k, j)).collect();
            if let Err(e) = trackers[c].step(&x) {
                o.violate("tracker_err", "ChainTracker::step:Err", e.to_string());
                return o;
            }
            let st = trackers[c].stats();
            // acceptance EMA: p_k = 0.99 p_{k-1} + 0.01 [x_k != x_{k-1}], always in [0,1]
            if !(st.p_accept >= 0.0 && st.p_accept <= 1.0) {
                o.violate("p_accept_range", "ChainTracker::p_accept:range", format!("p_accept = {} after {k} updates", st.p_accept));
                return o;
            }
            if k >= 2 {
                let changed = (xf != prev_states[c]) as i32 as f32;
                let want = 0.99f32 * prev_p[c] + 0.01 * changed;
                if (st.p_accept - want).abs() > 1e-5 {
                    o.violate("p_accept_ema", "ChainTracker::p_accept:ema", format!("update {k}: p_accept {} but 0.99*{} + 0.01*{changed} = {want}", st.p_accept, prev_p[c]));
                    return o;
                }
                o.count("probe_repeated_state", (changed == 0.0) as u64);
            }
            prev_p[c] = st.p_accept;
            prev_states[c] = xf.clone();
            all[c].push(xf);
            flat.extend(x);
        }
        if let Err(e) = multi.step(&flat) {
            o.violate("tracker_err", "MultiChainTracker::step:Err", e.to_string());
            return o;
        }
        if !(multi.p_accept >= 0.0 && multi.p_accept <= 1.0) {
            o.violate("p_accept_range", "MultiChainTracker::p_accept:range", format!("p_accept = {} after {k} updates", multi.p_accept));
            return o;
        }
        // one EMA update per chain row, in row order
        let mut want = prev_multi_p;
        for c in 0..nc {
            let changed = (all[c][k - 1] != prev_multi_states[c]) as i32 as f32;
            want = 0.99 * want + 0.01 * changed;
            prev_multi_states[c] = all[c][k - 1].clone();
        }
        if (multi.p_accept - want).abs() > 1e-4 {
            o.violate("p_accept_ema", "MultiChainTracker::p_accept:ema", format!("update {k}: p_accept {} expected {want}", multi.p_accept));
            return o;
        }
        prev_multi_p = multi.p_accept;
        o.work += nc as u64;
        // snapshots at some prefixes (always the last)
        let snap = k == n || (k >= 2 && mix(seed, k as u64) % 7 == 0);
        if !snap || k < 2 {
            continue;
        }
        let bs: Vec<Batch> = (0..nc).map(|c| batch(&all[c], p)).collect();
        let stats: Vec<ChainStats> = trackers.iter().map(|t| t.stats()).collect();
        // condition-aware tolerance: the f32 recurrences lose 8*n*eps32 relative to mean^2 + var,
        // i.e. (1 + mean^2/var) relative to the variance actually present in the fed prefix
        let tol_of = |b: &Batch, j: usize| 8.0 * k as f64 * (f32::EPSILON as f64) * (1.0 + b.mean[j].powi(2) / b.var[j].max(1e-300));
        let mut worst_tol = 0.0f64;
        for c in 0..nc {
            if stats[c].n != k as u64 {
                o.violate("count", "ChainTracker::stats:n", format!("n = {} after {k} updates", stats[c].n));
                return o;
            }
            for j in 0..p {
                let t = tol_of(&bs[c], j);
                worst_tol = worst_tol.max(t);
                if !(t < 0.02) || !(bs[c].var[j] > 1e-30) {
                    o.count("not_judged_ill_conditioned", 1);
                    continue;
                }
                let sd = bs[c].var[j].sqrt();
                if (stats[c].mean[j] as f64 - bs[c].mean[j]).abs() > t * (bs[c].mean[j].abs() + sd) + 1e-6 * sd {
                    o.violate("mean", "ChainTracker::stats:mean", format!("{}: chain {c} param {j} after {k} updates: mean {} but batch mean {}", T::NAME, stats[c].mean[j], bs[c].mean[j]));
                    return o;
                }
                if (stats[c].sm2[j] as f64 - bs[c].var[j]).abs() > (t + 1e-4) * bs[c].var[j] {
                    o.violate("variance", "ChainTracker::stats:variance", format!("{}: chain {c} param {j} after {k} updates: sm2 {} but unbiased batch variance {} (tolerance {:.2e})", T::NAME, stats[c].sm2[j], bs[c].var[j], t + 1e-4));
                    return o;
                }
                o.count("probe_mean_variance_compared", 1);
            }
        }
        // the between-chain term needs the chain means to about sigma/sqrt(n): demand the mean error
        // bound (8 n eps |mean|) to be below 2% of the spread of the chain means or of sd/sqrt(n)
        let mean_ok = (0..p).all(|j| {
            let gm = bs.iter().map(|b| b.mean[j]).sum::<f64>() / nc as f64;
            let spread = (bs.iter().map(|b| (b.mean[j] - gm).powi(2)).sum::<f64>() / (nc as f64 - 1.0).max(1.0)).sqrt();
            let w = (bs.iter().map(|b| b.var[j]).sum::<f64>() / nc as f64).sqrt();
            let err = 8.0 * k as f64 * (f32::EPSILON as f64) * bs.iter().map(|b| b.mean[j].abs()).fold(0.0, f64::max);
            err < 0.02 * spread.max(w / (k as f64).sqrt()).max(1e-300) && err < 0.01 * w
        });
        if nc >= 2 && worst_tol < 0.005 && mean_ok && bs.iter().all(|b| b.var.iter().all(|v| *v > 1e-30)) {
            let want = batch_rhat(&bs, p);
            let refs: Vec<&ChainStats> = stats.iter().collect();
            let got = collect_rhat(&refs);
            let got_multi = match multi.rhat() {
                Ok(r) => r,
                Err(e) => {
                    o.violate("tracker_err", "MultiChainTracker::rhat:Err", e.to_string());
                    return o;
                }
            };
            let rtol = 4.0 * worst_tol + 0.03;
            for j in 0..p {
                if (got[j] as f64 - want[j]).abs() > rtol * want[j] {
                    o.violate("collect_rhat", &format!("collect_rhat:{}", if p >= 2 { "multi-parameter" } else { "single-parameter" }), format!("{} chains x {p} params, n = {k}: collect_rhat[{j}] = {} but sqrt(var+/W) of the same draws = {}", nc, got[j], want[j]));
                    return o;
                }
                if (got_multi[j] as f64 - want[j]).abs() > rtol * want[j] {
                    o.violate("multi_rhat", "MultiChainTracker::rhat", format!("{} chains x {p} params, n = {k}: MultiChainTracker::rhat[{j}] = {} but sqrt(var+/W) = {}", nc, got_multi[j], want[j]));
                    return o;
                }
            }
            let rtol_max = rtol;
            if let Ok(m) = multi.max_rhat() {
                let wm = want.iter().cloned().fold(f64::MIN, f64::max);
                if (m as f64 - wm).abs() > rtol_max * wm {
                    o.violate("multi_rhat", "MultiChainTracker::max_rhat", format!("max_rhat {m} but max of batch R-hat {wm}"));
                    return o;
                }
            }
            o.count("probe_rhat_compared", 1);
            o.count("probe_rhat_far_from_one", (want.iter().any(|r| *r > 1.5)) as u64);
        }
    }
    if o.violations.is_empty() {
        frozen_parameter_check::<T>(&mut o, nc, p, seed);
    }
    o.hash = str_hash(&params.to_string());
    o.nontrivial = n >= 2;
    if ws {
        o.sample = Some(json!({"chains": nc, "params": p, "n": n, "mu": mu, "sigma": sigma, "shift_between_chains_in_sigma": shift, "hold": hold, "judged": judged}));
    }
    o
}

struct TrackerHistories;
impl TrackerHistories {
    fn execute_inner(&self, p: &Value, ws: bool) -> Outcome {
        match ps(p, "elt") {
            "f32" => tracker_histories::<f32>(p, ws),
            "i32" => {
                // integer states: use a scale that survives rounding; half of the runs in a range whose
                // squares do not fit the integer type (but fit f32 comfortably)
                let big = pu(p, "gseed") % 2 == 0;
                let (smin, mmax) = if big { (20_000.0, 100_000.0) } else { (5.0, 50.0) };
                let p2 = with(&with(p, "sigma", fbits(pf(p, "sigma").max(smin).min(smin * 4.0))), "mu", fbits(pf(p, "mu").clamp(-mmax, mmax)));
                tracker_histories::<i32>(&p2, ws)
            }
            "i16" => {
                let p2 = with(&with(p, "sigma", fbits(pf(p, "sigma").clamp(20.0, 60.0))), "mu", fbits(pf(p, "mu").clamp(-300.0, 300.0)));
                tracker_histories::<i16>(&p2, ws)
            }
            "u8" => {
                let p2 = with(&with(&with(p, "sigma", fbits(pf(p, "sigma").clamp(6.0, 12.0))), "mu", fbits(pf(p, "mu").abs().clamp(60.0, 120.0))), "shift", fbits(pf(p, "shift").min(0.5)));
                tracker_histories::<u8>(&p2, ws)
            }
            _ => tracker_histories::<f64>(p, ws),
        }
    }
}
impl Scenario for TrackerHistories {
    fn name(&self) -> &'static str {
        "tracker_histories"
    }
    fn runs(&self, tier: Tier) -> u64 {
        tier.pick(8000, 200_000)
    }
    fn generate(&self, g: &mut Gen, _t: Tier, _i: u64) -> Value {
        let n = match g.range(0, 9) {
            0..=5 => g.usize(2, 60),
            6..=8 => g.usize(61, 600),
            _ => g.usize(601, 5000),
        };
        let sigma = g.log_uniform(1e-6, 1e3); // any scale: f32 conditioning depends on mean/sd, not on the scale
        json!({"elt": *g.pick(&["f64", "f32", "f32", "i32", "i32", "i16", "u8"]), "chains": crate::core::size(g, 2, 16, 70), "params": crate::core::size(g, 1, 8, 70), "n": n,
               "mu": fbits(sigma * g.f64_in(-10.0, 10.0)), "sigma": fbits(sigma), "shift": fbits(if g.bool(1, 2) { 0.0 } else { g.f64_in(0.1, 3.0) }),
               "hold": if g.bool(1, 3) { g.usize(2, 5) } else { 1 }, "gseed": g.u64(), "refused_updates": g.bool(1, 4), "zero_flip": g.bool(1, 6)})
    }
    fn execute(&self, p: &Value, ws: bool) -> Outcome {
        // a panic inside a tracker (e.g. arithmetic overflow on an integer element type) is an observation
        let _ = mcmc_sim::sim::take_last_panic();
        match std::panic::catch_unwind(std::panic::AssertUnwindSafe(|| self.execute_inner(p, ws))) {
            Ok(o) => o,
            Err(_) => {
                let m = mcmc_sim::sim::take_last_panic().unwrap_or_default();
                let loc = m.rsplit(" @ ").next().unwrap_or("").to_string();
                let mut o = Outcome::default();
                o.hash = str_hash(&p.to_string());
                o.nontrivial = true;
                o.violate("panic", &format!("tracker[{}]:panic@{loc}", ps(p, "elt")), format!("tracker update history on {} states panicked: {m}", ps(p, "elt")));
                o
            }
        }
    }

    fn shrink(&self, p: &Value) -> Vec<Value> {
        let mut out = vec![];
        if ps(p, "elt") != "f64" && ps(p, "elt") != "f32" {
            // keep integer element types (their value ranges matter)
            shrink_int(p, "n", 2, &mut out);
            shrink_int(p, "chains", 2, &mut out);
            shrink_int(p, "params", 1, &mut out);
            return out;
        }
        shrink_int(p, "n", 2, &mut out);
        shrink_int(p, "chains", 2, &mut out);
        shrink_int(p, "params", 1, &mut out);
        shrink_int(p, "hold", 1, &mut out);
        if ps(p, "elt") != "f64" {
            out.push(with(p, "elt", json!("f64")));
        }
        if pf(p, "mu") != 0.0 {
            out.push(with(p, "mu", fbits(0.0)));
        }
        out
    }
    fn rule(&self) -> &'static str {
        "one run = an update history of length 2..5000 fed to 2..16 ChainTrackers and one MultiChainTracker (1..8 parameters, f64/f32/i32 states, any location/scale with |mu|/sigma <= 10, chains agreeing or shifted by up to 3 sigma per chain, runs of repeated states); count/mean/variance/EMA checked after every update, R-hat at pseudo-randomly chosen prefixes; distinct = parameter hash"
    }
    fn components(&self) -> Value {
        json!({"real": ["ChainTracker", "collect_rhat", "MultiChainTracker::{step,rhat,max_rhat,p_accept}"], "stub": ["state sequences generated by the harness"]})
    }
}

// ---- snapshots taken by real progress workers under the simulated clock / scheduler ------------
#[derive(Clone)]
struct SeqChain {
    seed: u64,
    c: usize,
    k: usize,
    p: usize,
    state: Vec<f64>,
}
impl MarkovChain<f64> for SeqChain {
    fn step(&mut self) -> &Vec<f64> {
        self.k += 1;
        self.state = (0..self.p).map(|j| state_val(self.seed, self.c, self.k, j, 1.0, 2.0, 0.5, 2)).collect();
        &self.state
    }
    fn current_state(&self) -> &Vec<f64> {
        &self.state
    }
}

struct ProgressSnapshots;
impl Scenario for ProgressSnapshots {
    fn name(&self) -> &'static str {
        "progress_snapshots"
    }
    fn runs(&self, tier: Tier) -> u64 {
        tier.pick(2400, 60_000)
    }
    fn generate(&self, g: &mut Gen, _t: Tier, _i: u64) -> Value {
        let nc = g.usize(2, 8);
        json!({"chains": nc, "params": g.usize(1, 4), "n_collect": g.usize(4, 30), "n_discard": g.usize(0, 20), "gseed": g.u64(), "sim": gen_sim(g, nc + 2, true)})
    }
    fn execute(&self, params: &Value, ws: bool) -> Outcome {
        let mut o = Outcome::default();
        let (nc, p, ncol, ndis, seed) = (pus(params, "chains"), pus(params, "params"), pus(params, "n_collect"), pus(params, "n_discard"), pu(params, "gseed"));
        let cfg = sim_cfg(&params["sim"]);
        let (rep, out) = run_sim(&cfg, move || {
            let mut rxs = vec![];
            let mut hs = vec![];
            for c in 0..nc {
                let (tx, rx) = mcmc_sim::mpsc::channel::<ChainStats>();
                rxs.push(rx);
                hs.push(mcmc_sim::thread::spawn(move || {
                    let mut ch = SeqChain { seed, c, k: 0, p, state: vec![0.0; p] };
                    run_chain_progress(&mut ch, ncol, ndis, tx).map(|_| ()).map_err(|e| e.to_string())
                }));
            }
            // stub listener: drains every channel until all senders are gone; also combines the most
            // recent snapshots the way the reporter does
            let mut snaps: Vec<Vec<ChainStats>> = vec![vec![]; nc];
            let mut open = vec![true; nc];
            let mut mixtures = 0u64;
            let mut unequal = 0u64;
            let mut order_dep: Option<String> = None;
            while open.iter().any(|x| *x) {
                for c in 0..nc {
                    if !open[c] {
                        continue;
                    }
                    loop {
                        match rxs[c].try_recv() {
                            Ok(st) => snaps[c].push(st),
                            Err(mcmc_sim::mpsc::TryRecvError::Empty) => break,
                            Err(mcmc_sim::mpsc::TryRecvError::Disconnected) => {
                                open[c] = false;
                                break;
                            }
                        }
                    }
                }
                let recent: Vec<&ChainStats> = snaps.iter().filter_map(|s| s.last()).collect();
                if recent.len() >= 2 {
                    // what the reporter computes from whatever reports exist at this moment (the chains are at
                    // different draw counts): a function of the SET of trackers, not of their listing order
                    let r = collect_rhat(&recent);
                    mixtures += 1;
                    let mut rev = recent.clone();
                    rev.reverse();
                    let r2 = collect_rhat(&rev);
                    if recent.iter().all(|s| s.n >= 2) && recent.iter().any(|s| s.n != recent[0].n) {
                        unequal += 1;
                        for j in 0..r.len() {
                            let (a, b) = (r[j] as f64, r2[j] as f64);
                            if a.is_finite() && b.is_finite() && (a - b).abs() > 1e-4 * a.abs().max(b.abs()) + 1e-6 && order_dep.is_none() {
                                order_dep = Some(format!("snapshots with n = {:?}: collect_rhat[{j}] = {a} but {b} with the trackers listed in reverse order", recent.iter().map(|s| s.n).collect::<Vec<_>>()));
                            }
                        }
                    }
                }
                mcmc_sim::thread::sleep(std::time::Duration::from_millis(250));
            }
            let res: Vec<Result<(), String>> = hs.into_iter().map(|h| h.join().unwrap_or_else(|_| Err("worker panicked".into()))).collect();
            (snaps, res, mixtures, unequal, order_dep)
        });
        o.sim_time_ns = rep.sim_time_ns;
        o.hash = mix(mix(rep.sched_hash, rep.event_hash), str_hash(&params.to_string()));
        o.nontrivial = rep.context_switches >= 2;
        o.absorb_counters(&rep.counters);
        if ws {
            o.sample = Some(report_json(&rep));
            o.schedule = Some(rep.schedule.clone());
        }
        if sim_failure_violation(&mut o, &rep, "progress-snapshots") {
            return o;
        }
        let Some((snaps, res, mixtures, unequal, order_dep)) = out else {
            o.harness_error = Some("no value".into());
            return o;
        };
        o.count("probe_snapshot_mixtures_combined", mixtures);
        o.count("probe_snapshot_mixtures_with_unequal_counts", unequal);
        if let Some(d) = order_dep {
            o.violate("rhat_order_dependent", "collect_rhat:depends-on-tracker-order", d);
            return o;
        }
        for r in res {
            if let Err(e) = r {
                o.violate("worker_err", "run_chain_progress:Err", e);
                return o;
            }
        }
        let total = ncol + ndis;
        for c in 0..nc {
            let seq: Vec<Vec<f64>> = (1..=total).map(|k| (0..p).map(|j| state_val(seed, c, k, j, 1.0, 2.0, 0.5, 2) as f32 as f64).collect()).collect();
            let mut last_n = 0;
            for st in &snaps[c] {
                let n = st.n as usize;
                o.work += 1;
                if n <= last_n || n > total {
                    o.violate("snapshot_n", "ChainTracker::stats:n", format!("chain {c}: snapshot n = {n} after n = {last_n} (total {total})"));
                    return o;
                }
                last_n = n;
                if n < 2 {
                    continue;
                }
                let b = batch(&seq[..n], p);
                for j in 0..p {
                    // condition-aware tolerance (see tracker_histories)
                    let tol = 8.0 * n as f64 * f32::EPSILON as f64 * (1.0 + b.mean[j].powi(2) / b.var[j].max(1e-300));
                    if !(tol < 0.02) || !(b.var[j] > 1e-30) {
                        o.count("not_judged_ill_conditioned", 1);
                        continue;
                    }
                    let sd = b.var[j].sqrt();
                    if (st.mean[j] as f64 - b.mean[j]).abs() > tol * (b.mean[j].abs() + sd) + 1e-6 * sd {
                        o.violate("mean", "ChainTracker::stats:mean", format!("chain {c}: snapshot with n = {n} reports mean {} but the first {n} states have mean {}", st.mean[j], b.mean[j]));
                        return o;
                    }
                    if (st.sm2[j] as f64 - b.var[j]).abs() > (tol + 1e-4) * b.var[j] {
                        o.violate("variance", "ChainTracker::stats:variance", format!("chain {c}: snapshot with n = {n} reports variance {} but the first {n} states have {}", st.sm2[j], b.var[j]));
                        return o;
                    }
                    o.count("probe_snapshot_prefix_stats_compared", 1);
                }
                if !(st.p_accept >= 0.0 && st.p_accept <= 1.0) {
                    o.violate("p_accept_range", "ChainTracker::p_accept:range", format!("snapshot p_accept {}", st.p_accept));
                    return o;
                }
            }
            if snaps[c].last().map(|s| s.n as usize) != Some(total) {
                o.violate("no_final_message", "run_chain_progress:final-message", format!("chain {c}: last snapshot n = {:?}, total {total}", snaps[c].last().map(|s| s.n)));
                return o;
            }
            o.count("probe_intermediate_snapshots", (snaps[c].len() > 1) as u64);
        }
        // equal-n snapshots (the final ones): progress R-hat == classical formula
        let finals: Vec<&ChainStats> = snaps.iter().map(|s| s.last().unwrap()).collect();
        let bs: Vec<Batch> = (0..nc)
            .map(|c| {
                let seq: Vec<Vec<f64>> = (1..=total).map(|k| (0..p).map(|j| state_val(seed, c, k, j, 1.0, 2.0, 0.5, 2) as f32 as f64).collect()).collect();
                batch(&seq, p)
            })
            .collect();
        let well = bs.iter().all(|b| (0..p).all(|j| b.var[j] > 1e-30 && 8.0 * total as f64 * f32::EPSILON as f64 * (1.0 + b.mean[j].powi(2) / b.var[j]) < 0.002));
        if well {
            let want = batch_rhat(&bs, p);
            let got = collect_rhat(&finals);
            o.count("probe_final_progress_rhat_compared", 1);
            for j in 0..p {
                if (got[j] as f64 - want[j]).abs() > 2e-2 * want[j] {
                    o.violate("collect_rhat", &format!("collect_rhat:{}", if p >= 2 { "multi-parameter" } else { "single-parameter" }), format!("{nc} chains x {p} params, n = {total}: progress R-hat[{j}] = {} but sqrt(var+/W) of the same draws = {}", got[j], want[j]));
                    return o;
                }
            }
        }
        o
    }
    fn shrink(&self, p: &Value) -> Vec<Value> {
        let mut out = vec![];
        shrink_int(p, "chains", 2, &mut out);
        shrink_int(p, "params", 1, &mut out);
        shrink_int(p, "n_collect", 4, &mut out);
        shrink_int(p, "n_discard", 0, &mut out);
        shrink_sim(p, &mut out);
        out
    }
    fn rule(&self) -> &'static str {
        "one run = 2..8 real run_chain_progress workers on simulated threads / clock (regimes from frozen to one message per step) sending ChainStats snapshots to a stub listener; every snapshot must be the batch statistics of exactly the first n states of its chain; final snapshots combined by collect_rhat must equal the classical formula; non-trivial = >= 2 context switches"
    }
    fn components(&self) -> Value {
        json!({"real": ["run_chain_progress", "ChainTracker", "collect_rhat"], "stub": ["listener", "scripted chains", "simulated threads/channels/clock"]})
    }
}
