//! C10 — progress mode returns the same draws, always terminates, in any precision.

use super::*;
use crate::stubs::*;
use mcmc_sim::sim::{run_sim, FailKind};
use mini_mcmc::core::{run_chain_progress, ChainRunner};
use mini_mcmc::stats::{BasicStats, ChainStats, RunStats};
use ndarray::Array3;

pub fn def() -> PropertyDef {
    PropertyDef {
        id: "C10",
        level: "exploration",
        scenarios: vec![Box::new(ProgressStub), Box::new(WorkerRxDrop), Box::new(WorkerCrash), Box::new(ProgressReal)],
        assumptions: vec![
            "simulated time is one global clock advanced by per-call costs and sleeps (any monotone clock is a legal clock)",
            "indicatif draws to a hidden target; its internal real clock does not feed back into control flow",
            "shuttle's coroutine scheduler stands in for OS threads: every channel operation, clock reading, sleep and spawn/join is a scheduling point",
        ],
    }
}

fn bs_eq(a: &BasicStats, b: &BasicStats) -> bool {
    let f = |x: f32, y: f32| x.to_bits() == y.to_bits() || (x.is_nan() && y.is_nan());
    a.name == b.name && f(a.min, b.min) && f(a.median, b.median) && f(a.max, b.max) && f(a.mean, b.mean) && f(a.std, b.std)
}
pub fn runstats_eq(a: &RunStats, b: &RunStats) -> bool {
    bs_eq(&a.ess, &b.ess) && bs_eq(&a.rhat, &b.rhat)
}

pub fn sim_failure_violation(o: &mut Outcome, rep: &mcmc_sim::sim::SimReport, site: &str) -> bool {
    if let Some(f) = &rep.failure {
        if f.msg.contains("HARNESS-ERROR") {
            o.harness_error = Some(f.msg.clone());
            return true;
        }
        match f.kind {
            FailKind::StepBound => o.violate("hang_step_bound", &format!("{site}:hang"), format!("no termination within the step bound: {}", f.msg)),
            FailKind::Deadlock => o.violate("deadlock", &format!("{site}:deadlock"), f.msg.clone()),
            FailKind::Panic => {
                // key: panic site (file:line) so that a different panic is a different finding
                let loc = f.msg.rsplit(" @ ").next().unwrap_or("").to_string();
                o.violate("panic", &format!("{site}:panic@{loc}"), f.msg.clone())
            }
        }
        true
    } else {
        false
    }
}

// ---------------------------------------------------------------------------------------------
// scenario 1: ChainRunner::run_progress on counting chains, 1..48 chains
// ---------------------------------------------------------------------------------------------
struct ProgressStub;

fn run_progress_stub<T: Cell + ndarray::LinalgScalar + PartialEq + Send + Sync + num_traits::ToPrimitive>(params: &Value, want_sample: bool) -> Outcome {
    let mut o = Outcome::default();
    let nc = pus(params, "n_chains");
    let dim = pus(params, "dim");
    let n_collect = pus(params, "n_collect");
    let n_discard = pus(params, "n_discard");
    let inner = pu(params, "inner_points") as u32;
    let special = params.get("special").and_then(|v| v.as_bool()).unwrap_or(false);
    let cfg = sim_cfg(&params["sim"]);
    mcmc_sim::mpsc::reset_ids();
    let body = move || {
        let mut s = CountSampler::<T>::new(nc, dim);
        for c in s.chains.iter_mut() {
            c.inner_points = inner;
            c.special = special;
        }
        let r = s.run_progress(n_collect, n_discard);
        let counts: Vec<u64> = s.chains.iter().map(|c| c.n).collect();
        match r {
            Ok((arr, stats)) => Ok((arr, stats, counts)),
            Err(e) => Err(e.to_string()),
        }
    };
    // fidelity cross-check of the seams: the same protocol code on REAL OS threads and std channels
    // (the seams' pass-through mode); only the results are compared, there is no schedule to record
    if params.get("real_threads").and_then(|v| v.as_bool()).unwrap_or(false) {
        let _ = mcmc_sim::sim::take_last_panic();
        let r = std::panic::catch_unwind(std::panic::AssertUnwindSafe(body));
        o.hash = str_hash(&params.to_string());
        o.nontrivial = true;
        o.work = (nc * (n_collect + n_discard)) as u64;
        o.count("probe_real_os_thread_runs", 1);
        match r {
            Err(_) => {
                let m = mcmc_sim::sim::take_last_panic().unwrap_or_default();
                let loc = m.rsplit(" @ ").next().unwrap_or("").to_string();
                o.violate("panic", &format!("ChainRunner::run_progress:panic@{loc}"), format!("on real threads: {m}"));
            }
            Ok(Err(e)) => o.violate("run_progress_err", "ChainRunner::run_progress:Err", e),
            Ok(Ok((arr, stats, counts))) => {
                check_counting_array_sp(&mut o, &arr, nc, n_collect, n_discard, dim, 0, "ChainRunner::run_progress", special);
                let total = (n_collect + n_discard) as u64;
                if counts.iter().any(|n| *n != total) {
                    o.violate("transition_count", "ChainRunner::run_progress:transitions", format!("transition counts {counts:?}, expected {total} each"));
                }
                if !runstats_eq(&stats, &RunStats::from(arr.view())) {
                    o.violate("diagnostics_differ", "ChainRunner::run_progress:stats", "diagnostics differ from RunStats::from(returned draws) on real threads".into());
                }
            }
        }
        return o;
    }
    let (rep, out) = run_sim(&cfg, body);
    o.sim_time_ns = rep.sim_time_ns;
    o.work = (nc * (n_collect + n_discard)) as u64;
    o.hash = mix(mix(rep.sched_hash, rep.event_hash), str_hash(&params.to_string()));
    o.nontrivial = rep.context_switches >= 2;
    o.absorb_counters(&rep.counters);
    o.count("probe_more_chains_than_bars", (nc > 5) as u64);
    o.count("probe_only_final_message", (rep.counters.get("sends").copied().unwrap_or(0) == nc as u64) as u64);
    o.count("probe_message_per_step", (rep.counters.get("sends").copied().unwrap_or(0) >= (nc * (n_collect + n_discard)) as u64) as u64);
    o.count("probe_reporter_polls_ge_100", (rep.counters.get("sleeps").copied().unwrap_or(0) >= 100) as u64);
    if want_sample {
        o.sample = Some(report_json(&rep));
        o.schedule = Some(rep.schedule.clone());
    }
    if sim_failure_violation(&mut o, &rep, "ChainRunner::run_progress") {
        return o;
    }
    let total = (n_collect + n_discard) as u64;
    match out {
        None => o.harness_error = Some("simulation returned no value and no failure".into()),
        Some(Err(e)) => o.violate("run_progress_err", "ChainRunner::run_progress:Err", e),
        Some(Ok((arr, stats, counts))) => {
            check_counting_array_sp(&mut o, &arr, nc, n_collect, n_discard, dim, 0, "ChainRunner::run_progress", special);
            o.count("probe_special_value_states", special as u64);
            for (c, n) in counts.iter().enumerate() {
                if *n != total {
                    o.violate("transition_count", "ChainRunner::run_progress:transitions", format!("chain {c} performed {n} transitions, expected {total}"));
                }
            }
            let want = RunStats::from(arr.view());
            if !runstats_eq(&stats, &want) {
                o.violate("diagnostics_differ", "ChainRunner::run_progress:stats", format!("returned {stats:?} but from the returned draws {want:?}"));
            }
            // "diagnostics computed from the returned draws" are a function of the draws: the same bits
            // whatever the size of the thread pool the computation happens to run in
            if let Ok(pool) = rayon::ThreadPoolBuilder::new().num_threads(1).build() {
                let want1 = pool.install(|| RunStats::from(arr.view()));
                o.count("probe_diagnostics_recomputed_in_a_one_thread_pool", 1);
                if !runstats_eq(&want, &want1) {
                    o.violate("diagnostics_pool_dependent", "RunStats::from:depends-on-thread-pool-size", format!("diagnostics of the same draws differ between the default pool and a one-thread pool: {want:?} vs {want1:?}"));
                }
            }
            // bounded liveness after the last message: reporter exits within n_chains + 5 polls
            let after = rep.counters.get("sleeps_since_last_send").copied().unwrap_or(0);
            if after > nc as u64 + 5 {
                o.violate("slow_exit", "ChainRunner::run_progress:reporter-exit", format!("reporter needed {after} polls after the last message ({nc} chains)"));
            }
        }
    }
    o
}

/// oracle of the transition-counter model for arrays produced by counting chains
pub fn check_counting_array<T: Cell>(o: &mut Outcome, arr: &Array3<T>, nc: usize, n_collect: usize, n_discard: usize, dim: usize, before: u64, site: &str) {
    check_counting_array_sp(o, arr, nc, n_collect, n_discard, dim, before, site, false)
}

/// `special`: the chains were in "special" mode (non-finite / beyond-f32 cells in some transitions)
#[allow(clippy::too_many_arguments)]
pub fn check_counting_array_sp<T: Cell>(o: &mut Outcome, arr: &Array3<T>, nc: usize, n_collect: usize, n_discard: usize, dim: usize, before: u64, site: &str, special: bool) {
    if arr.shape() != [nc, n_collect, dim] {
        o.violate("shape", &format!("{site}:shape"), format!("shape {:?}, expected [{nc}, {n_collect}, {dim}]", arr.shape()));
        return;
    }
    for c in 0..nc {
        for k in 0..n_collect {
            let n = before + (n_discard + k + 1) as u64;
            for j in 0..dim {
                let mut want = expect_cell(c as u64, n, j, dim) as f64;
                if special {
                    if let Some(v) = special_cell(c as u64, n, j, dim).and_then(T::of_special) {
                        want = v.back();
                    }
                }
                let got = arr[[c, k, j]].back();
                if got.to_bits() != want.to_bits() && !(got.is_nan() && want.is_nan()) {
                    o.violate("draws_differ", &format!("{site}:draws"), format!("out[{c}][{k}][{j}] = {got}, expected {want} (chain {c} after {n} transitions)"));
                    return;
                }
            }
        }
    }
}

impl Scenario for ProgressStub {
    fn name(&self) -> &'static str {
        "progress_stub"
    }
    fn runs(&self, tier: Tier) -> u64 {
        tier.pick(14_000, 640_000)
    }
    fn generate(&self, g: &mut Gen, _tier: Tier, _idx: u64) -> Value {
        let nc = match g.range(0, 9) {
            0..=3 => g.usize(1, 5),
            4..=6 => g.usize(6, 12),
            7..=8 => g.usize(13, 30),
            _ => g.usize(31, 48),
        };
        let n_collect = g.usize(4, 24);
        let n_discard = g.usize(0, 16);
        json!({
            "elt": *g.pick(&["f64", "f64", "f32", "i32"]),
            "n_chains": nc, "dim": g.usize(1, 6), "n_collect": n_collect, "n_discard": n_discard,
            // slow workers: many scheduling points inside one transition, so that the reporter polls
            // hundreds of times before the first message / between two messages
            "inner_points": if g.bool(1, 10) { g.range(20, 60) } else { g.range(0, 2) },
            "special": g.bool(1, 4),
            "real_threads": g.bool(1, 16) && nc <= 12,
            "sim": gen_sim(g, nc + 2, true),
        })
    }
    fn execute(&self, params: &Value, want_sample: bool) -> Outcome {
        match ps(params, "elt") {
            "f32" => run_progress_stub::<f32>(params, want_sample),
            "i32" => run_progress_stub::<i32>(params, want_sample),
            _ => run_progress_stub::<f64>(params, want_sample),
        }
    }
    fn shrink(&self, p: &Value) -> Vec<Value> {
        let mut out = vec![];
        shrink_int(p, "n_chains", 1, &mut out);
        shrink_int(p, "n_collect", 4, &mut out);
        shrink_int(p, "n_discard", 0, &mut out);
        shrink_int(p, "dim", 1, &mut out);
        shrink_int(p, "inner_points", 0, &mut out);
        if ps(p, "elt") != "f64" {
            out.push(with(p, "elt", json!("f64")));
        }
        shrink_sim(p, &mut out);
        out
    }
    fn rule(&self) -> &'static str {
        "one run = (chain count 1..48, n_collect 4..24, n_discard 0..16, dim, element type, clock regime, scheduler kind+seed); non-trivial = the recorded schedule has >= 2 context switches; distinct = hash of (recorded schedule, event log, parameters)"
    }
    fn components(&self) -> Value {
        json!({"real": ["ChainRunner::run_progress", "run_chain_progress", "ChainTracker", "collect_rhat", "RunStats::from", "indicatif bars (hidden)"],
               "stub": ["MarkovChain = counting chain", "threads/channels/clock = simulator (shuttle coroutines, simulated clock); 1 run in 16 with <= 12 chains: real OS threads and std channels through the seams' pass-through mode"]})
    }
}

// ---------------------------------------------------------------------------------------------
// scenario 2b: fault = a chain worker dies (its chain / target code panics) in transition j
// ---------------------------------------------------------------------------------------------
/// "Always terminates": a worker thread that dies at an arbitrary point is the crash fault of this
/// simulation. The call must still come to an end - by propagating the panic or by returning an
/// error, that is its choice - instead of waiting for ever for a chain that will never report
/// again. (What it returns is not judged; only hangs and deadlocks are.)
struct WorkerCrash;

impl Scenario for WorkerCrash {
    fn name(&self) -> &'static str {
        "worker_crash"
    }
    fn runs(&self, tier: Tier) -> u64 {
        tier.pick(1500, 60_000)
    }
    fn generate(&self, g: &mut Gen, _tier: Tier, idx: u64) -> Value {
        let nuts = idx % 6 == 5;
        let nc = if nuts { g.usize(1, 7) } else { crate::core::size(g, 1, 12, 48) };
        let n_collect = if nuts { g.usize(4, 8) } else { g.usize(4, 20) };
        let n_discard = if nuts { g.usize(0, 5) } else { g.usize(0, 12) };
        let mut sim = gen_sim(g, nc + 2, true);
        if g.bool(1, 2) {
            // a clock under which reports fall due during the run
            sim = with(&sim, "clock", json!({"regime": "fast_clock", "seed": g.u64(), "base_ns": [], "default_ns": g.log_uniform(1e7, 2e9) as u64, "jitter": true, "stall": null}));
        }
        json!({"nuts": nuts, "n_chains": nc, "dim": g.usize(1, 3), "n_collect": n_collect, "n_discard": n_discard,
               "crash_chain": g.usize(0, nc - 1), "crash_frac": fbits(g.f64()), "second_crash": g.bool(1, 5), "inner_points": g.range(0, 2), "seed": g.u64(), "sim": sim})
    }
    fn execute(&self, params: &Value, want_sample: bool) -> Outcome {
        let mut o = Outcome::default();
        let nuts = pb(params, "nuts");
        let nc = pus(params, "n_chains");
        let dim = pus(params, "dim");
        let (n_collect, n_discard) = (pus(params, "n_collect"), pus(params, "n_discard"));
        let total = (n_collect + n_discard) as u64;
        let cc = pus(params, "crash_chain").min(nc - 1);
        let frac = pf(params, "crash_frac");
        let second = pb(params, "second_crash");
        let inner = pu(params, "inner_points") as u32;
        let seed = pu(params, "seed");
        let cfg = sim_cfg(&params["sim"]);
        mcmc_sim::mpsc::reset_ids();
        let _ = mcmc_sim::sim::take_last_panic();
        let body = move || -> String {
            let r = std::panic::catch_unwind(std::panic::AssertUnwindSafe(|| {
                if nuts {
                    use crate::gtargets::{GKind, GTarget};
                    use crate::zoo::BF32;
                    let mut t = GTarget::new(GKind::Quartic, dim);
                    // each transition costs a handful of evaluations: somewhere inside the run
                    t.crash_at = 3 + (frac * (nc as f64) * (total as f64) * 6.0) as u64;
                    let mut s = mini_mcmc::nuts::NUTS::<f32, BF32, GTarget>::new(t, vec![vec![0.3f32; dim]; nc], 0.8).set_seed(seed);
                    match s.run_progress(n_collect, n_discard) {
                        Ok(_) => "ok".to_string(),
                        Err(e) => format!("err: {e}"),
                    }
                } else {
                    let mut s = CountSampler::<f64>::new(nc, dim);
                    for c in s.chains.iter_mut() {
                        c.inner_points = inner;
                    }
                    s.chains[cc].panic_at = Some(1 + (frac * total as f64) as u64);
                    if second && nc > 1 {
                        s.chains[(cc + 1) % nc].panic_at = Some(1 + ((1.0 - frac) * total as f64) as u64);
                    }
                    match s.run_progress(n_collect, n_discard) {
                        Ok(_) => "ok".to_string(),
                        Err(e) => format!("err: {e}"),
                    }
                }
            }));
            // the call has ended one way or the other: the process goes on to exit
            mcmc_sim::sim::process_exit();
            match r {
                Ok(s) => s,
                Err(_) => "panic propagated".to_string(),
            }
        };
        let (rep, out) = run_sim(&cfg, body);
        o.sim_time_ns = rep.sim_time_ns;
        o.work = nc as u64 * total;
        o.hash = mix(mix(rep.sched_hash, rep.event_hash), str_hash(&params.to_string()));
        let fired = rep.counters.get("fault_worker_crash_injected").copied().unwrap_or(0);
        o.nontrivial = fired > 0;
        o.absorb_counters(&rep.counters);
        o.count("probe_crash_with_more_chains_than_bars", (fired > 0 && nc > 5) as u64);
        o.count("probe_crash_in_nuts_worker", (fired > 0 && nuts) as u64);
        if want_sample {
            o.sample = Some(report_json(&rep));
            o.schedule = Some(rep.schedule.clone());
        }
        let site = if nuts { "NUTS::run_progress[worker crash]" } else { "ChainRunner::run_progress[worker crash]" };
        if let Some(f) = &rep.failure {
            if f.msg.contains("HARNESS-ERROR") {
                o.harness_error = Some(f.msg.clone());
                return o;
            }
            match f.kind {
                FailKind::StepBound => o.violate("hang_step_bound", &format!("{site}:hang"), format!("a chain worker died in its transition code and the call never ended ({nc} chains): {}", f.msg)),
                FailKind::Deadlock => o.violate("deadlock", &format!("{site}:deadlock"), format!("a chain worker died in its transition code and the call deadlocked ({nc} chains): {}", f.msg)),
                // a panic that ends the simulated execution is the crash propagating: terminated
                FailKind::Panic => o.count("probe_call_ended_by_propagated_panic", 1),
            }
            return o;
        }
        match out.as_deref() {
            Some("ok") if fired > 0 => o.count("probe_call_returned_ok_despite_crash", 1),
            Some("ok") => o.count("probe_crash_point_not_reached", 1),
            Some("panic propagated") => o.count("probe_call_ended_by_propagated_panic", 1),
            Some(_) => o.count("probe_call_returned_err", 1),
            None => o.harness_error = Some("no value".into()),
        }
        o
    }
    fn shrink(&self, p: &Value) -> Vec<Value> {
        let mut out = vec![];
        shrink_int(p, "n_chains", 1, &mut out);
        shrink_int(p, "n_collect", 4, &mut out);
        shrink_int(p, "n_discard", 0, &mut out);
        shrink_sim(p, &mut out);
        out
    }
    fn rule(&self) -> &'static str {
        "one run = run_progress of 1..48 counting chains (5 in 6) or of a NUTS sampler with 1..7 chains (1 in 6) in which one worker (1 in 5: two) dies in transition / target evaluation j (j anywhere in the run), under a seeded schedule and clock; the call must end (propagated panic or Err) within the step bound, no deadlock; non-trivial = the crash fired; distinct = hash of (schedule, events, parameters)"
    }
    fn components(&self) -> Value {
        json!({"real": ["ChainRunner::run_progress, run_chain_progress (core.rs)", "NUTS::run_progress, NUTSChain (nuts.rs)", "burn autodiff"], "stub": ["counting chains / quartic target with an injected panic", "threads with std's crash semantics, channels, clock = simulator"]})
    }
}

// ---------------------------------------------------------------------------------------------
// scenario 2: fault = the statistics receiver disappears after j messages (every j)
// ---------------------------------------------------------------------------------------------
struct WorkerRxDrop;

impl Scenario for WorkerRxDrop {
    fn name(&self) -> &'static str {
        "worker_rx_drop"
    }
    fn runs(&self, tier: Tier) -> u64 {
        tier.pick(8000, 240_000)
    }
    fn generate(&self, g: &mut Gen, _tier: Tier, idx: u64) -> Value {
        let n_collect = g.usize(4, 20);
        let n_discard = g.usize(0, 12);
        let total = (n_collect + n_discard) as u64;
        // drop point: every j in 0..=total+1 is enumerated across consecutive run indices
        // (j = total+1: listener outlives the worker), "before_start" additionally drops before the spawn
        let j = idx % (total + 2);
        let mut sim = gen_sim(g, 3, false);
        // a clock that makes the worker send on every step, on most runs
        let fast = g.bool(3, 4);
        sim = with(&sim, "clock", json!({"regime": if fast {"fast_clock"} else {"uniform"}, "seed": g.u64(), "base_ns": [], "default_ns": if fast { 2_000_000_000u64 } else { g.log_uniform(1e3, 2e9) as u64 }, "jitter": g.bool(1,2), "stall": null}));
        json!({"n_collect": n_collect, "n_discard": n_discard, "dim": g.usize(1, 4), "drop_after": j, "before_start": g.bool(1, 8), "sim": sim})
    }
    fn execute(&self, params: &Value, want_sample: bool) -> Outcome {
        let mut o = Outcome::default();
        let n_collect = pus(params, "n_collect");
        let n_discard = pus(params, "n_discard");
        let dim = pus(params, "dim");
        let drop_after = pu(params, "drop_after");
        let before_start = pb(params, "before_start");
        let cfg = sim_cfg(&params["sim"]);
        mcmc_sim::mpsc::reset_ids();
        let (rep, out) = run_sim(&cfg, move || {
            let (tx, rx) = mcmc_sim::mpsc::channel::<ChainStats>();
            let mut rx = Some(rx);
            if before_start && drop_after == 0 {
                rx = None; // receiver gone before the worker exists
            }
            let listener = mcmc_sim::thread::spawn(move || {
                let mut seen: Vec<u64> = vec![];
                if let Some(rx) = rx {
                    while (seen.len() as u64) < drop_after {
                        match rx.recv() {
                            Ok(st) => seen.push(st.n),
                            Err(_) => break,
                        }
                    }
                    drop(rx);
                }
                seen
            });
            let worker = mcmc_sim::thread::spawn(move || {
                let mut chain = CountChain::<f64>::new(0, dim);
                let r = run_chain_progress(&mut chain, n_collect, n_discard, tx);
                (r, chain.n)
            });
            let w = worker.join();
            let l = listener.join();
            (w.map_err(|_| format!("worker panicked: {}", mcmc_sim::sim::take_last_panic().unwrap_or_default())), l.map_err(|_| "listener panicked".to_string()))
        });
        o.sim_time_ns = rep.sim_time_ns;
        o.work = (n_collect + n_discard) as u64;
        o.hash = mix(mix(rep.sched_hash, rep.event_hash), str_hash(&params.to_string()));
        let send_errs = rep.counters.get("send_errs").copied().unwrap_or(0);
        o.nontrivial = rep.context_switches >= 2;
        o.count("fault_receiver_dropped_send_failed", send_errs);
        o.count("probe_rx_dropped_before_first_send", (send_errs > 0 && rep.counters.get("sends").copied().unwrap_or(0) == 0) as u64);
        o.count("probe_rx_dropped_mid_run", (send_errs > 0 && rep.counters.get("sends").copied().unwrap_or(0) > 0) as u64);
        o.count("probe_listener_outlived_worker", (send_errs == 0) as u64);
        if want_sample {
            o.sample = Some(report_json(&rep));
            o.schedule = Some(rep.schedule.clone());
        }
        if sim_failure_violation(&mut o, &rep, "run_chain_progress") {
            return o;
        }
        let total = (n_collect + n_discard) as u64;
        match out {
            None => o.harness_error = Some("no value".into()),
            Some((Err(e), _)) | Some((_, Err(e))) => o.violate("panic", "run_chain_progress:thread-panic", e),
            Some((Ok((r, n)), Ok(seen))) => {
                match r {
                    Err(e) => o.violate("worker_err", "run_chain_progress:Err", format!("worker returned Err with the receiver gone: {e}")),
                    Ok(arr) => {
                        let a3 = arr.insert_axis(ndarray::Axis(0));
                        check_counting_array(&mut o, &a3, 1, n_collect, n_discard, dim, 0, "run_chain_progress");
                    }
                }
                if n != total {
                    o.violate("transition_count", "run_chain_progress:transitions", format!("worker performed {n} transitions, expected {total}"));
                }
                for w in seen.windows(2) {
                    if w[1] <= w[0] {
                        o.violate("message_order", "run_chain_progress:message-order", format!("statistics messages not strictly increasing: {seen:?}"));
                        break;
                    }
                }
                if let Some(last) = seen.last() {
                    if *last > total {
                        o.violate("message_n", "run_chain_progress:message-n", format!("message with n={last} > total {total}"));
                    }
                }
                // a listener that never stopped listening must have seen the final message
                if send_errs == 0 && drop_after > 0 && (seen.len() as u64) < drop_after && seen.last().copied() != Some(total) {
                    o.violate("no_final_message", "run_chain_progress:final-message", format!("listener stayed until the channel closed but the last message has n={:?}, total {total}", seen.last()));
                }
            }
        }
        o
    }
    fn shrink(&self, p: &Value) -> Vec<Value> {
        let mut out = vec![];
        shrink_int(p, "n_collect", 4, &mut out);
        shrink_int(p, "n_discard", 0, &mut out);
        shrink_int(p, "dim", 1, &mut out);
        shrink_int(p, "drop_after", 0, &mut out);
        shrink_sim(p, &mut out);
        out
    }
    fn rule(&self) -> &'static str {
        "fault = receiver dropped after exactly j messages; j enumerated over 0..=total+1 by run index (every message index), plus 'dropped before the worker starts'; non-trivial = >= 2 context switches; distinct = hash of (schedule, events, parameters)"
    }
    fn components(&self) -> Value {
        json!({"real": ["run_chain_progress", "ChainTracker"], "stub": ["listener thread (drops the receiver)", "counting chain", "simulated threads/channel/clock"]})
    }
}

// ---------------------------------------------------------------------------------------------
// scenario 3: real samplers, element types x backends: run_progress == run, diagnostics, no panic
// ---------------------------------------------------------------------------------------------
struct ProgressReal;

const REAL_KINDS: &[&str] = &[
    "mh_gauss", "mh_gauss_f32", "mh_table", "gibbs_det", "hmc_f32", "hmc_f64", "hmc_rosen_f32", "nuts_f32", "nuts_f64", "nuts_rosen_f64",
    "hmc_t64_b32", "hmc_t32_b64", "nuts_t64_b32", "nuts_t32_b64",
];

impl Scenario for ProgressReal {
    fn name(&self) -> &'static str {
        "progress_real"
    }
    fn runs(&self, tier: Tier) -> u64 {
        tier.pick(2100, 80_000)
    }
    fn generate(&self, g: &mut Gen, _tier: Tier, idx: u64) -> Value {
        use crate::props::c07::gen_spec;
        // every kind is visited in turn (backend matrix), the rest is random
        let kind = REAL_KINDS[(idx % REAL_KINDS.len() as u64) as usize];
        let mut spec = gen_spec(g, &[kind]);
        let heavy = kind.starts_with("hmc") || kind.starts_with("nuts");
        if heavy && g.bool(1, 6) {
            spec = with(&spec, "n_chains", json!(g.usize(6, 9))); // more chains than bars (NUTS' copy of the protocol)
        }
        spec = with(&spec, "n_collect", json!(pu(&spec, "n_collect").max(4)));
        spec = with(&spec, "seed", json!(g.range(0, 1u64 << 40).to_string()));
        // "from the same sampler state": 1 run in 3 the sampler has already run before (plain run(a, b))
        if g.bool(1, 3) {
            spec = with(&spec, "prior", json!([g.usize(1, 4), g.usize(0, 3)]));
        }
        let nc = pus(&spec, "n_chains");
        json!({"spec": spec, "sim": gen_sim(g, nc + 2, true)})
    }
    fn execute(&self, params: &Value, want_sample: bool) -> Outcome {
        use crate::props::c07::{kind_family, solo, spec_of};
        use crate::zoo::*;
        let mut o = Outcome::default();
        let spec = spec_of(&params["spec"]);
        let fam = kind_family(&spec.kind);
        let site = format!("{fam}::run_progress[{}]", spec.kind);
        let mut rspec = spec.clone();
        if is_nuts(&spec.kind) {
            rspec.n_collect += 1;
        }
        let want = match solo(&rspec, Mode::Sequential) {
            Ok(Ok(r)) => r,
            Ok(Err(e)) => {
                o.violate("run_err", &format!("{fam}::run[{}]:Err", spec.kind), e);
                return o;
            }
            Err(m) => {
                let loc = m.rsplit(" @ ").next().unwrap_or("").to_string();
                o.violate("panic", &format!("{fam}::run[{}]:panic@{loc}", spec.kind), m);
                return o;
            }
        };
        o.work = (spec.n_chains * (spec.n_collect + spec.n_discard)) as u64 * 2;
        let cfg = sim_cfg(&params["sim"]);
        let sp = spec.clone();
        let (rep, out) = run_sim(&cfg, move || run_spec(&sp, Mode::Progress).map(|r| (r.bits, r.shape, r.stats)));
        o.sim_time_ns = rep.sim_time_ns;
        o.hash = mix(mix(rep.sched_hash, rep.event_hash), str_hash(&params.to_string()));
        o.nontrivial = rep.context_switches >= 2 || fam == "HMC";
        o.absorb_counters(&rep.counters);
        o.count(&format!("probe_kind_{}", spec.kind), 1);
        o.count("probe_sampler_had_run_before", spec.prior.is_some() as u64);
        o.count("probe_nuts_more_chains_than_bars", (fam == "NUTS" && spec.n_chains > 5) as u64);
        if want_sample {
            o.sample = Some(report_json(&rep));
            o.schedule = Some(rep.schedule.clone());
        }
        if sim_failure_violation(&mut o, &rep, &site) {
            return o;
        }
        match out {
            None => o.harness_error = Some("no value".into()),
            Some(Err(e)) => o.violate("run_err", &format!("{site}:Err"), e),
            Some(Ok((bits, shape, stats))) => {
                let dim = want.shape[2];
                let expect: Vec<u64> = if is_nuts(&spec.kind) {
                    let mut v = vec![];
                    for c in 0..want.shape[0] {
                        for k in 1..want.shape[1] {
                            for j in 0..dim {
                                v.push(want.bits[(c * want.shape[1] + k) * dim + j]);
                            }
                        }
                    }
                    v
                } else {
                    want.bits.clone()
                };
                if shape != [spec.n_chains, spec.n_collect, dim] || bits != expect {
                    o.violate("progress_differs_from_run", &format!("{fam}:run_progress-differs-from-run"), format!("{} run_progress({}, {}) differs from run (shape {:?})", spec.kind, spec.n_collect, spec.n_discard, shape));
                } else if let Some(st) = stats {
                    let arr = Array3::from_shape_vec((shape[0], shape[1], shape[2]), bits.iter().map(|b| f64::from_bits(*b)).collect()).unwrap();
                    let want_st = RunStats::from(arr.view());
                    if !runstats_eq(&st, &want_st) {
                        o.violate("diagnostics_differ", &format!("{fam}:run_progress-stats"), format!("{}: returned {st:?} but from the returned draws {want_st:?}", spec.kind));
                    }
                }
                if fam != "HMC" {
                    let after = rep.counters.get("sleeps_since_last_send").copied().unwrap_or(0);
                    if after > spec.n_chains as u64 + 5 {
                        o.violate("slow_exit", &format!("{fam}:run_progress-reporter-exit"), format!("reporter needed {after} polls after the last message ({} chains)", spec.n_chains));
                    }
                }
            }
        }
        o
    }
    fn shrink(&self, p: &Value) -> Vec<Value> {
        let mut out: Vec<Value> = crate::props::c07::shrink_spec(&p["spec"]).into_iter().filter(|s| pu(s, "n_collect") >= 4).map(|s| with(p, "spec", s)).collect();
        shrink_sim(p, &mut out);
        out
    }
    fn rule(&self) -> &'static str {
        "real MH/Gibbs/HMC/NUTS samplers; the 14 (sampler, element type, backend) kinds are visited in turn by run index; run_progress (1 in 3: on a sampler that has already run) on simulated threads/clock under a seeded schedule vs run() sequentially; non-trivial = >= 2 context switches (HMC: any); distinct = hash of (schedule, events, parameters)"
    }
    fn components(&self) -> Value {
        json!({"real": ["ChainRunner::run_progress (MH, Gibbs)", "NUTS::run_progress / NUTSChain::run_progress", "HMC::run_progress", "MultiChainTracker", "RunStats", "burn NdArray<f32>/<f64> autodiff"], "stub": ["threads/channels/clock = simulator", "harness-written targets"]})
    }
}
