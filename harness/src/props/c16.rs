//! C16 — Categorical: normalised probabilities, exact logp, samples follow probs, never a
//! zero-probability category whatever uniform variate the generator produces.

use super::*;
use crate::craft::*;
use crate::props::c01::FloatElt;
use mini_mcmc::distributions::{Categorical, Discrete, Target};

pub fn def() -> PropertyDef {
    PropertyDef {
        id: "C16",
        level: "exploration",
        scenarios: vec![Box::new(Injected), Box::new(ExhaustiveF32)],
        assumptions: vec![
            "the uniform variate is injected through the verification-only constructor Categorical::with_rng with a crafted generator state (self-checked against rand)",
            "near a cumulative boundary (within len ulp) either neighbouring positive-probability category is accepted; a zero-probability category never is",
        ],
    }
}

fn gen_weights(g: &mut Gen, tiny_lo: f64, tiny_hi: f64) -> Vec<f64> {
    let len = match g.range(0, 9) {
        0 => 1,
        1..=5 => g.usize(2, 8),
        6..=8 => g.usize(9, 64),
        _ => crate::core::dict_size(g, 1, 1100).unwrap_or(65),
    };
    let style = g.range(0, 5);
    // unnormalised: ordinary scales, very large ones, and sums in the subnormal range of the float type
    let scale = match g.range(0, 9) {
        0 => g.log_uniform(tiny_lo, tiny_hi),
        1 => g.log_uniform(1e20, 1e30),
        _ => g.log_uniform(1e-6, 1e6),
    };
    let mut w: Vec<f64> = (0..len)
        .map(|_| match style {
            0 => 1.0,
            1 => g.f64(),
            2 => g.log_uniform(1e-12, 1.0),
            3 => (g.range(1, 16) as f64) / 16.0,
            _ => g.log_uniform(1e-3, 1e3),
        } * scale)
        .collect();
    // zeros at any position: first, last, runs
    match g.range(0, 7) {
        0 => w[0] = 0.0,
        1 => w[len - 1] = 0.0,
        2 => {
            w[0] = 0.0;
            w[len - 1] = 0.0;
        }
        3 => {
            let a = g.usize(0, len - 1);
            let b = g.usize(a, len - 1);
            for x in &mut w[a..=b] {
                *x = 0.0;
            }
        }
        4 => {
            for x in w.iter_mut() {
                if g.bool(1, 2) {
                    *x = 0.0;
                }
            }
        }
        _ => {}
    }
    if w.iter().all(|x| *x == 0.0) {
        let i = g.usize(0, len - 1);
        w[i] = scale;
    }
    // "almost normalised" inputs: probabilities that were normalised elsewhere and then rounded to a
    // few decimals (the sum is off from 1 by far more than an ulp, far less than a percent)
    if g.bool(1, 6) {
        let sum: f64 = w.iter().sum();
        let digits = *g.pick(&[3i32, 4, 5, 6, 8]);
        let q = 10f64.powi(digits);
        for x in w.iter_mut() {
            *x = (*x / sum * q).round() / q;
        }
        if w.iter().all(|x| *x == 0.0) {
            w[0] = 1.0;
        }
    }
    w
}

/// judge one sample: index returned for variate r under probabilities p (library's own normalisation)
fn judge_sample<F: FloatElt>(o: &mut Outcome, p: &[F], r: F, idx: usize) -> bool {
    let len = p.len();
    if idx >= len {
        o.violate("index_range", "Categorical::sample:index-out-of-range", format!("{}: sample returned {idx} for {len} categories", F::NAME));
        return false;
    }
    if !(p[idx] > F::zero()) {
        let first_pos = p.iter().position(|x| *x > F::zero()).unwrap_or(0);
        let last_pos = p.iter().rposition(|x| *x > F::zero()).unwrap_or(0);
        let key = if idx < first_pos {
            "Categorical::sample:zero-probability-leading-category"
        } else if idx > last_pos {
            "Categorical::sample:zero-probability-trailing-category"
        } else {
            "Categorical::sample:zero-probability-inner-category"
        };
        o.violate("zero_probability_category", key, format!("{}: variate {:?} selected category {idx} whose probability is {:?} (probs {:?})", F::NAME, r, p[idx], &p[..len.min(8)]));
        return false;
    }
    // cumulative sums in the library's order and type
    let mut cum = F::zero();
    let mut lo = F::zero();
    for (i, x) in p.iter().enumerate() {
        lo = cum;
        cum = cum + *x;
        if i == idx {
            break;
        }
    }
    let tol = F::epsilon() * F::of_f64((len + 2) as f64);
    if r < lo - tol || r > cum + tol {
        // beyond the last cumulative sum (rounding below 1) the last positive category is right
        let total = p.iter().fold(F::zero(), |a, b| a + *b);
        let last_pos = p.iter().rposition(|x| *x > F::zero()).unwrap_or(0);
        if r >= total - tol && idx == last_pos {
            return true;
        }
        o.violate("wrong_category", "Categorical::sample:variate-outside-category-interval", format!("{}: variate {:?} selected category {idx} whose cumulative interval is [{:?}, {:?}]", F::NAME, r, lo, cum));
        return false;
    }
    true
}

trait CatFloat: FloatElt + std::ops::AddAssign
where
    rand_distr::StandardUniform: rand::distr::Distribution<Self>,
{
}
impl CatFloat for f64 {}
impl CatFloat for f32 {}

fn injected<F: CatFloat>(params: &Value, ws: bool) -> Outcome
where
    rand_distr::StandardUniform: rand::distr::Distribution<F>,
{
    let mut o = Outcome::default();
    let mut g = Gen::new(pu(params, "gseed"));
    let (tl, th) = if F::NAME == "f32" { (1e-43, 1e-39) } else { (1e-320, 1e-309) };
    let mut w64 = gen_weights(&mut g, tl, th);
    // extreme ratios: one weight so small against the others that its PROBABILITY is a subnormal number
    // of the float type (a valid category all the same: ln p_i is finite, sampling may return it)
    if w64.len() >= 2 && g.bool(1, 5) {
        let wmax = w64.iter().cloned().fold(0.0f64, f64::max);
        if (1e-6..=1e6).contains(&wmax) {
            let i = g.usize(0, w64.len() - 1);
            if w64[i] != wmax {
                w64[i] = wmax * if F::NAME == "f32" { g.log_uniform(1e-44, 1e-39) } else { g.log_uniform(1e-321, 1e-309) };
            }
        }
    }
    let mut w: Vec<F> = w64.iter().map(|x| F::of_f64(*x)).collect();
    if w.iter().all(|x| *x == F::zero()) {
        // everything underflowed to zero in this float type: keep one representable positive weight
        w[0] = F::min_positive_value();
        w64[0] = F::min_positive_value().as_f64();
    }
    let len = w.len();
    o.count("probe_subnormal_weight_sum", (w.iter().fold(F::zero(), |a, b| a + *b) < F::min_positive_value()) as u64);
    let cat = Categorical::new(w.clone());
    let p: Vec<F> = cat.probs.clone();
    o.count("probe_subnormal_probability", p.iter().any(|x| *x > F::zero() && *x < F::min_positive_value()) as u64);
    // normalisation
    let sum = p.iter().fold(0.0f64, |a, b| a + b.as_f64());
    let eps = F::epsilon().as_f64();
    if p.len() != len || p.iter().any(|x| !(x.as_f64() >= 0.0)) || (sum - 1.0).abs() > (len as f64 + 2.0) * eps {
        o.violate("normalisation", "Categorical::new:normalisation", format!("{}: probabilities {:?} sum to {sum}", F::NAME, &p[..len.min(8)]));
    }
    let wsum: f64 = w.iter().map(|x| x.as_f64()).sum();
    for i in 0..len {
        let want = w[i].as_f64() / wsum;
        // the library sums the weights in its own float type: up to len roundings in the sum
        // (a subnormal probability is only representable to one spacing of the subnormal range)
        let sub = F::min_positive_value().as_f64() * eps;
        if (p[i].as_f64() - want).abs() > (len as f64 + 8.0) * eps * want.max(1e-300) + 1e-300 + sub || ((w[i] == F::zero()) != (p[i] == F::zero()) && !(w[i] != F::zero() && p[i] == F::zero() && want < sub)) {
            o.violate("normalisation", "Categorical::new:proportionality", format!("{}: p[{i}] = {:?} but weight/sum = {want}", F::NAME, p[i]));
            break;
        }
    }
    // logp
    for i in 0..len + 3 {
        let got: F = cat.logp(i);
        let got_t: F = <Categorical<F> as Target<usize, F>>::unnorm_logp(&cat, &[i]);
        let want = if i < len { p[i].ln() } else { F::neg_infinity() };
        let same = |a: F, b: F| a.as_f64().to_bits() == b.as_f64().to_bits() || (a.is_nan() && b.is_nan());
        if !same(got, want) || !same(got_t, want) {
            o.violate("logp", "Categorical::logp", format!("{}: logp({i}) = {:?} / target {:?}, expected {:?}", F::NAME, got, got_t, want));
            break;
        }
    }
    // injected variates: extremes, the representable values around every cumulative boundary, random
    let mut ks: Vec<u64> = vec![0, 1, F::n_u() - 1, F::n_u() - 2, F::n_u() / 2];
    let mut cum = F::zero();
    for x in &p {
        cum = cum + *x;
        let k = (cum.as_f64() * F::n_u() as f64).floor();
        if k >= 0.0 {
            let k = (k as u64).min(F::n_u() - 1);
            for d in [-2i64, -1, 0, 1, 2] {
                let kk = k as i64 + d;
                if kk >= 0 && (kk as u64) < F::n_u() {
                    ks.push(kk as u64);
                }
            }
        }
    }
    for _ in 0..64 {
        ks.push(g.range(0, F::n_u() - 1));
    }
    let mut h = 0u64;
    for k in ks {
        let raw = F::raw_of_k(k) | (g.u64() & 0xff);
        let r = F::u_of_raw(raw);
        let mut c = Categorical::with_rng(w.clone(), craft_small_rng(raw));
        let idx = c.sample();
        o.work += 1;
        o.count("probe_variate_zero", (k == 0) as u64);
        o.count("probe_variate_one_minus_ulp", (k == F::n_u() - 1) as u64);
        h = mix(h, mix(k, idx as u64));
        if !judge_sample(&mut o, &p, r, idx) {
            break;
        }
    }
    o.count("probe_leading_zero_weight", (w[0] == F::zero()) as u64);
    o.count("probe_trailing_zero_weight", (w[len - 1] == F::zero()) as u64);
    o.hash = mix(h, str_hash(&params.to_string()));
    o.nontrivial = len >= 2;
    if ws {
        o.sample = Some(json!({"float": F::NAME, "weights_head": &w64[..len.min(10)], "len": len}));
    }
    o
}

struct Injected;
impl Scenario for Injected {
    fn name(&self) -> &'static str {
        "categorical_injected_variates"
    }
    fn runs(&self, tier: Tier) -> u64 {
        tier.pick(20_000, 1_000_000)
    }
    fn generate(&self, g: &mut Gen, _t: Tier, _i: u64) -> Value {
        json!({"float": *g.pick(&["f64", "f32"]), "gseed": g.u64()})
    }
    fn execute(&self, p: &Value, ws: bool) -> Outcome {
        if ps(p, "float") == "f32" {
            injected::<f32>(p, ws)
        } else {
            injected::<f64>(p, ws)
        }
    }
    fn rule(&self) -> &'static str {
        "one run = one weight vector (length 1..64, zeros first/last/runs, unnormalised, ratios up to 1e12) in f32 or f64; normalisation, logp for every index incl. out of range, and sample() for injected variates 0, 1 ulp, 1-ulp, the five representable values around every cumulative boundary, 64 random; non-trivial = >= 2 categories; distinct = hash of (variate, index) pairs and vector"
    }
    fn components(&self) -> Value {
        json!({"real": ["Categorical::new", "Discrete::sample", "Discrete::logp", "Target<usize>::unnorm_logp"], "stub": ["generator = crafted SmallRng via Categorical::with_rng"]})
    }
}

/// complete f32 variate space (2^24 values) per weight vector
struct ExhaustiveF32;
impl Scenario for ExhaustiveF32 {
    fn name(&self) -> &'static str {
        "categorical_f32_all_variates"
    }
    fn runs(&self, tier: Tier) -> u64 {
        tier.pick(16, 960)
    }
    fn generate(&self, g: &mut Gen, _t: Tier, _i: u64) -> Value {
        json!({"gseed": g.u64()})
    }
    fn execute(&self, params: &Value, ws: bool) -> Outcome {
        let mut o = Outcome::default();
        let mut g = Gen::new(pu(params, "gseed"));
        let mut w64 = gen_weights(&mut g, 1e-43, 1e-39);
        w64.truncate(12.max(1)); // keep the per-sample cost low; zeros are re-checked below
        // (zero-ness is decided in f32: tiny f64 weights underflow to 0 there)
        if w64.iter().all(|x| (*x as f32) == 0.0) {
            w64[0] = 1.0;
        }
        let w: Vec<f32> = w64.iter().map(|x| *x as f32).collect();
        let len = w.len();
        let p: Vec<f32> = Categorical::new(w.clone()).probs.clone();
        let mut counts = vec![0u64; len];
        let n = 1u64 << 24;
        for k in 0..n {
            let raw = raw_for_f32_k(k as u32);
            let mut c = Categorical::with_rng(w.clone(), craft_small_rng(raw));
            let idx = c.sample();
            if !judge_sample::<f32>(&mut o, &p, f32_of_raw(raw), idx) {
                break;
            }
            counts[idx] += 1;
        }
        o.work = n;
        if o.violations.is_empty() {
            for i in 0..len {
                let f = counts[i] as f64 / n as f64;
                if (f - p[i] as f64).abs() > (len as f64 + 2.0) / (1u64 << 23) as f64 {
                    o.violate("frequency", "Categorical::sample:exact-frequency", format!("f32: over all 2^24 variates category {i} is selected with frequency {f}, probability {}", p[i]));
                    break;
                }
            }
        }
        o.count("exhaustive_f32_vectors", 1);
        o.hash = str_hash(&params.to_string());
        o.nontrivial = len >= 2;
        if ws {
            o.sample = Some(json!({"weights": w64, "counts_over_2^24": counts}));
        }
        o
    }
    fn rule(&self) -> &'static str {
        "one run = one f32 weight vector (<= 12 categories) sampled with EVERY one of the 2^24 uniform variates rand can produce (exhaustive per vector); exact selection frequency of each category compared with its probability; non-trivial = >= 2 categories"
    }
    fn components(&self) -> Value {
        json!({"real": ["Categorical::new", "Discrete::sample"], "stub": ["generator = crafted SmallRng"]})
    }
}
