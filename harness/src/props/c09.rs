//! C09 — run(): shape, chain order, burn-in discard and continuation are exact.

use super::*;
use crate::props::c10::{check_counting_array, sim_failure_violation};
use crate::stubs::*;
use mcmc_sim::sim::run_sim;
use mini_mcmc::core::ChainRunner;

pub fn def() -> PropertyDef {
    PropertyDef {
        id: "C09",
        level: "exploration",
        scenarios: vec![Box::new(RunStub)],
        assumptions: vec!["the parallel iterator is the simulator's work-claiming stub inside simulations (real rayon pools are run as a fidelity cross-check)"],
    }
}

struct RunStub;

fn run_stub<T: Cell + ndarray::LinalgScalar + PartialEq + Send + num_traits::ToPrimitive>(params: &Value, want_sample: bool) -> Outcome {
    let mut o = Outcome::default();
    let nc = pus(params, "n_chains");
    let dim = pus(params, "dim");
    let calls: Vec<(usize, usize)> = params["calls"].as_array().unwrap().iter().map(|c| (c[0].as_u64().unwrap() as usize, c[1].as_u64().unwrap() as usize)).collect();
    let inner = pu(params, "inner_points") as u32;
    let real_pool = pb(params, "real_rayon");
    let body = {
        let calls = calls.clone();
        move || {
            let mut s = CountSampler::<T>::new(nc, dim);
            for c in s.chains.iter_mut() {
                c.inner_points = inner;
            }
            let mut outs = vec![];
            for (n_collect, n_discard) in &calls {
                let r = s.run(*n_collect, *n_discard).map_err(|e| e.to_string());
                let counts: Vec<u64> = s.chains.iter().map(|c| c.n).collect();
                let states: Vec<Vec<f64>> = s.chains.iter().map(|c| c.state.iter().map(|x| x.back()).collect()).collect();
                outs.push((r, counts, states));
            }
            outs
        }
    };
    let outs;
    if real_pool {
        // fidelity cross-check of the stub: real rayon pool
        outs = Some(body());
        o.hash = str_hash(&params.to_string());
        o.nontrivial = calls.len() >= 1;
        o.count("probe_real_rayon_runs", 1);
    } else {
        let cfg = sim_cfg(&params["sim"]);
        let (rep, out) = run_sim(&cfg, body);
        o.sim_time_ns = rep.sim_time_ns;
        o.hash = mix(mix(rep.sched_hash, rep.event_hash), str_hash(&params.to_string()));
        o.nontrivial = rep.context_switches >= 2 || nc == 1;
        o.absorb_counters(&rep.counters);
        if want_sample {
            o.sample = Some(report_json(&rep));
            o.schedule = Some(rep.schedule.clone());
        }
        if sim_failure_violation(&mut o, &rep, "ChainRunner::run") {
            return o;
        }
        outs = out;
    }
    let Some(outs) = outs else {
        o.harness_error = Some("no value".into());
        return o;
    };
    let mut before = 0u64;
    for (ci, ((n_collect, n_discard), (r, counts, states))) in calls.iter().zip(outs.iter()).enumerate() {
        o.work += (nc * (n_collect + n_discard)) as u64;
        match r {
            Err(e) => o.violate("run_err", "ChainRunner::run:Err", format!("call {ci}: {e}")),
            Ok(arr) => check_counting_array(&mut o, arr, nc, *n_collect, *n_discard, dim, before, "ChainRunner::run"),
        }
        before += (n_collect + n_discard) as u64;
        for (c, n) in counts.iter().enumerate() {
            if *n != before {
                o.violate("transition_count", "ChainRunner::run:transitions", format!("after call {ci} chain {c} has performed {n} transitions, expected {before}"));
                break;
            }
        }
        // the sampler is left at the last returned state
        for (c, st) in states.iter().enumerate() {
            for j in 0..dim {
                if st[j] != expect_cell(c as u64, before, j, dim) as f64 {
                    o.violate("left_state", "ChainRunner::run:left-state", format!("after call {ci} chain {c} state {st:?} is not its state after {before} transitions"));
                    break;
                }
            }
        }
        o.count("probe_n_collect_zero", (*n_collect == 0) as u64);
        o.count("probe_n_discard_zero", (*n_discard == 0) as u64);
    }
    o.count("probe_multi_call_history", (calls.len() >= 2) as u64);
    o
}

impl Scenario for RunStub {
    fn name(&self) -> &'static str {
        "run_stub"
    }
    fn runs(&self, tier: Tier) -> u64 {
        tier.pick(3000, 200_000)
    }
    fn generate(&self, g: &mut Gen, _tier: Tier, _idx: u64) -> Value {
        let nc = g.usize(1, 32);
        let n_calls = g.usize(1, 4);
        let calls: Vec<Value> = (0..n_calls).map(|_| json!([g.usize(0, 40), g.usize(0, 40)])).collect();
        json!({
            "elt": *g.pick(&["f64", "f64", "f32", "i32", "usize"]),
            "n_chains": nc, "dim": g.usize(1, 16), "calls": calls, "inner_points": g.range(0, 2),
            "real_rayon": g.bool(1, 10),
            "sim": gen_sim(g, nc + 1, false),
        })
    }
    fn execute(&self, params: &Value, want_sample: bool) -> Outcome {
        match ps(params, "elt") {
            "f32" => run_stub::<f32>(params, want_sample),
            "i32" => run_stub::<i32>(params, want_sample),
            "usize" => run_stub::<usize>(params, want_sample),
            _ => run_stub::<f64>(params, want_sample),
        }
    }
    fn shrink(&self, p: &Value) -> Vec<Value> {
        let mut out = vec![];
        let calls = p["calls"].as_array().unwrap();
        if calls.len() > 1 {
            out.push(with(p, "calls", json!([calls[0].clone()])));
            out.push(with(p, "calls", Value::Array(calls[..calls.len() - 1].to_vec())));
            out.push(with(p, "calls", Value::Array(calls[1..].to_vec())));
        }
        for (i, c) in calls.iter().enumerate() {
            for (slot, lo) in [(0usize, 0u64), (1, 0)] {
                let cur = c[slot].as_u64().unwrap();
                for cand in [lo, cur / 2, cur.saturating_sub(1)] {
                    if cand < cur {
                        let mut cs = calls.clone();
                        let mut pair = c.as_array().unwrap().clone();
                        pair[slot] = json!(cand);
                        cs[i] = Value::Array(pair);
                        out.push(with(p, "calls", Value::Array(cs)));
                    }
                }
            }
        }
        shrink_int(p, "n_chains", 1, &mut out);
        shrink_int(p, "dim", 1, &mut out);
        shrink_int(p, "inner_points", 0, &mut out);
        if ps(p, "elt") != "f64" {
            out.push(with(p, "elt", json!("f64")));
        }
        shrink_sim(p, &mut out);
        out
    }
    fn rule(&self) -> &'static str {
        "one run = a history of 1-4 run(n_collect 0..40, n_discard 0..40) calls on 1..32 counting chains of dim 1..16 under W simulated workers and a seeded schedule (10%: real rayon pool); non-trivial = >= 2 context switches (or a single chain); distinct = hash of (schedule, events, parameters)"
    }
    fn components(&self) -> Value {
        json!({"real": ["ChainRunner::run", "run_chain", "ndarray stack"], "stub": ["counting MarkovChain/HasChains", "parallel iterator = simulated workers (90%) / real rayon (10%)"]})
    }
}
