//! C09 — run(): shape, chain order, burn-in discard and continuation are exact.

use super::*;
use crate::props::c10::sim_failure_violation;
use crate::stubs::*;
use mcmc_sim::sim::run_sim;
use mini_mcmc::core::ChainRunner;

pub fn def() -> PropertyDef {
    PropertyDef {
        id: "C09",
        level: "exploration",
        scenarios: vec![Box::new(RunStub), Box::new(RealHistory)],
        assumptions: vec!["the parallel iterator is the simulator's work-claiming stub inside simulations (real rayon pools are run as a fidelity cross-check)"],
    }
}

struct RunStub;

fn run_stub<T: Cell + ndarray::LinalgScalar + PartialEq + Send + num_traits::ToPrimitive>(params: &Value, want_sample: bool) -> Outcome {
    let mut o = Outcome::default();
    let nc = pus(params, "n_chains");
    let dim = pus(params, "dim");
    let calls: Vec<(usize, usize)> = params["calls"].as_array().unwrap().iter().map(|c| (c[0].as_u64().unwrap() as usize, c[1].as_u64().unwrap() as usize)).collect();
    let inner = pu(params, "inner_points") as u32;
    let real_pool = pb(params, "real_rayon");
    let special = params.get("special").and_then(|v| v.as_bool()).unwrap_or(false);
    let body = {
        let calls = calls.clone();
        move || {
            let mut s = CountSampler::<T>::new(nc, dim);
            for c in s.chains.iter_mut() {
                c.inner_points = inner;
                c.special = special;
            }
            let mut outs = vec![];
            for (n_collect, n_discard) in &calls {
                let r = s.run(*n_collect, *n_discard).map_err(|e| e.to_string());
                let counts: Vec<u64> = s.chains.iter().map(|c| c.n).collect();
                let states: Vec<Vec<f64>> = s.chains.iter().map(|c| c.state.iter().map(|x| x.back()).collect()).collect();
                outs.push((r, counts, states));
            }
            outs
        }
    };
    let outs;
    if real_pool {
        // fidelity cross-check of the stub: real rayon pool
        outs = Some(body());
        o.hash = str_hash(&params.to_string());
        o.nontrivial = calls.len() >= 1;
        o.count("probe_real_rayon_runs", 1);
    } else {
        let cfg = sim_cfg(&params["sim"]);
        let (rep, out) = run_sim(&cfg, body);
        o.sim_time_ns = rep.sim_time_ns;
        o.hash = mix(mix(rep.sched_hash, rep.event_hash), str_hash(&params.to_string()));
        o.nontrivial = rep.context_switches >= 2 || nc == 1;
        o.absorb_counters(&rep.counters);
        if want_sample {
            o.sample = Some(report_json(&rep));
            o.schedule = Some(rep.schedule.clone());
        }
        if sim_failure_violation(&mut o, &rep, "ChainRunner::run") {
            return o;
        }
        outs = out;
    }
    let Some(outs) = outs else {
        o.harness_error = Some("no value".into());
        return o;
    };
    let mut before = 0u64;
    for (ci, ((n_collect, n_discard), (r, counts, states))) in calls.iter().zip(outs.iter()).enumerate() {
        o.work += (nc * (n_collect + n_discard)) as u64;
        match r {
            Err(e) => o.violate("run_err", "ChainRunner::run:Err", format!("call {ci}: {e}")),
            Ok(arr) => crate::props::c10::check_counting_array_sp(&mut o, arr, nc, *n_collect, *n_discard, dim, before, "ChainRunner::run", special),
        }
        before += (n_collect + n_discard) as u64;
        for (c, n) in counts.iter().enumerate() {
            if *n != before {
                o.violate("transition_count", "ChainRunner::run:transitions", format!("after call {ci} chain {c} has performed {n} transitions, expected {before}"));
                break;
            }
        }
        // the sampler is left at the last returned state
        for (c, st) in states.iter().enumerate() {
            for j in 0..dim {
                let mut want = expect_cell(c as u64, before, j, dim) as f64;
                if special {
                    if let Some(v) = special_cell(c as u64, before, j, dim).and_then(T::of_special) {
                        want = v.back();
                    }
                }
                if st[j].to_bits() != want.to_bits() && !(st[j].is_nan() && want.is_nan()) {
                    o.violate("left_state", "ChainRunner::run:left-state", format!("after call {ci} chain {c} state {st:?} is not its state after {before} transitions"));
                    break;
                }
            }
        }
        o.count("probe_n_collect_zero", (*n_collect == 0) as u64);
        o.count("probe_n_discard_zero", (*n_discard == 0) as u64);
    }
    o.count("probe_multi_call_history", (calls.len() >= 2) as u64);
    o
}

impl Scenario for RunStub {
    fn name(&self) -> &'static str {
        "run_stub"
    }
    fn runs(&self, tier: Tier) -> u64 {
        tier.pick(20_000, 800_000)
    }
    fn generate(&self, g: &mut Gen, _tier: Tier, _idx: u64) -> Value {
        let nc = crate::core::size(g, 1, 32, 70);
        let n_calls = g.usize(1, 4);
        let calls: Vec<Value> = (0..n_calls).map(|_| json!([crate::core::size(g, 0, 40, 260), crate::core::size(g, 0, 40, 260)])).collect();
        json!({
            "elt": *g.pick(&["f64", "f64", "f32", "i32", "usize"]),
            "n_chains": nc, "dim": crate::core::size(g, 1, 16, 130), "calls": calls, "inner_points": g.range(0, 2),
            "real_rayon": g.bool(1, 10),
            "special": g.bool(1, 4),
            "sim": gen_sim(g, nc + 1, false),
        })
    }
    fn execute(&self, params: &Value, want_sample: bool) -> Outcome {
        match ps(params, "elt") {
            "f32" => run_stub::<f32>(params, want_sample),
            "i32" => run_stub::<i32>(params, want_sample),
            "usize" => run_stub::<usize>(params, want_sample),
            _ => run_stub::<f64>(params, want_sample),
        }
    }
    fn shrink(&self, p: &Value) -> Vec<Value> {
        let mut out = vec![];
        let calls = p["calls"].as_array().unwrap();
        if calls.len() > 1 {
            out.push(with(p, "calls", json!([calls[0].clone()])));
            out.push(with(p, "calls", Value::Array(calls[..calls.len() - 1].to_vec())));
            out.push(with(p, "calls", Value::Array(calls[1..].to_vec())));
        }
        for (i, c) in calls.iter().enumerate() {
            for (slot, lo) in [(0usize, 0u64), (1, 0)] {
                let cur = c[slot].as_u64().unwrap();
                for cand in [lo, cur / 2, cur.saturating_sub(1)] {
                    if cand < cur {
                        let mut cs = calls.clone();
                        let mut pair = c.as_array().unwrap().clone();
                        pair[slot] = json!(cand);
                        cs[i] = Value::Array(pair);
                        out.push(with(p, "calls", Value::Array(cs)));
                    }
                }
            }
        }
        shrink_int(p, "n_chains", 1, &mut out);
        shrink_int(p, "dim", 1, &mut out);
        shrink_int(p, "inner_points", 0, &mut out);
        if ps(p, "elt") != "f64" {
            out.push(with(p, "elt", json!("f64")));
        }
        shrink_sim(p, &mut out);
        out
    }
    fn rule(&self) -> &'static str {
        "one run = a history of 1-4 run(n_collect 0..40, n_discard 0..40) calls on 1..32 counting chains of dim 1..16 under W simulated workers and a seeded schedule (10%: real rayon pool); non-trivial = >= 2 context switches (or a single chain); distinct = hash of (schedule, events, parameters)"
    }
    fn components(&self) -> Value {
        json!({"real": ["ChainRunner::run", "run_chain", "ndarray stack"], "stub": ["counting MarkovChain/HasChains", "parallel iterator = simulated workers (90%) / real rayon (10%)"]})
    }
}

// ---------------------------------------------------------------------------------------------
// real samplers: call histories. Consecutive runs == slices of one long run (MH, Gibbs, HMC);
// run() == manual stepping through the public per-transition API; NUTS::run == its chains run
// individually; no transition more than needed (counted from the draw trace for NUTS/HMC).
// ---------------------------------------------------------------------------------------------
pub struct RealHistory;

impl Scenario for RealHistory {
    fn name(&self) -> &'static str {
        "run_real_history"
    }
    fn runs(&self, tier: Tier) -> u64 {
        tier.pick(2400, 96_000)
    }
    fn generate(&self, g: &mut Gen, _tier: Tier, _idx: u64) -> Value {
        use crate::props::c07::gen_spec;
        // the 10 ordinary kinds plus samplers whose scalar type differs from the backend float
        let kinds: Vec<&str> = crate::zoo::KINDS.iter().copied().chain(["hmc_t32_b64", "hmc_t64_b32", "nuts_t32_b64", "nuts_t64_b32", "hmc_1d_f64", "hmc_1d_f64"]).collect();
        let spec = gen_spec(g, &kinds);
        let kind = ps(&spec, "kind").to_string();
        let heavy = kind.starts_with("hmc") || kind.starts_with("nuts");
        let nuts = kind.starts_with("nuts");
        let n_calls = g.usize(1, 3);
        let calls: Vec<Value> = (0..n_calls)
            .map(|_| {
                let (c, d) = if heavy { (g.usize(0, 5), g.usize(0, 4)) } else { (g.usize(0, 25), g.usize(0, 15)) };
                json!([if nuts { c.max(1) } else { c }, d])
            })
            .collect();
        let nc = pus(&spec, "n_chains");
        json!({"spec": with(&spec, "seed", json!(g.range(0, 1u64 << 40).to_string())), "calls": calls, "real_rayon": g.bool(1, 8), "sim": gen_sim(g, nc + 1, false)})
    }
    fn execute(&self, params: &Value, want_sample: bool) -> Outcome {
        use crate::props::c07::{kind_family, spec_of};
        use crate::zoo::*;
        let mut o = Outcome::default();
        let spec = spec_of(&params["spec"]);
        let fam = kind_family(&spec.kind);
        let nuts = is_nuts(&spec.kind);
        let calls: Vec<(usize, usize)> = params["calls"].as_array().unwrap().iter().map(|c| (c[0].as_u64().unwrap() as usize, c[1].as_u64().unwrap() as usize)).collect();
        let real = pb(params, "real_rayon");
        // (1) the history under test: run() calls on one sampler, under simulated workers / a real pool
        let sp = spec.clone();
        let cl = calls.clone();
        let body = move || -> Result<(Vec<(Vec<u64>, [usize; 3])>, Vec<Vec<u64>>, Vec<usize>), String> {
            let mut s = build(&sp)?;
            let mut outs = vec![];
            let mut states = vec![];
            let mut steps = vec![];
            for (c, d) in &cl {
                mcmc_sim::trace::start();
                let r = s.run(*c, *d, Mode::Run)?;
                let ev = mcmc_sim::trace::stop();
                // transitions performed in this call, from the draw trace (HMC: one hmc_momentum per step; NUTS: one nuts_step_begin per transition per chain)
                steps.push(ev.iter().filter(|e| e.role == "hmc_momentum" || e.role == "nuts_step_begin").count());
                outs.push((r.bits, r.shape));
                states.push(s.state_bits());
            }
            Ok((outs, states, steps))
        };
        let got;
        if real {
            let _ = mcmc_sim::sim::take_last_panic();
            match std::panic::catch_unwind(std::panic::AssertUnwindSafe(body)) {
                Ok(r) => got = r,
                Err(_) => {
                    let m = mcmc_sim::sim::take_last_panic().unwrap_or_default();
                    let loc = m.rsplit(" @ ").next().unwrap_or("").to_string();
                    o.violate("panic", &format!("{fam}::run:panic@{loc}"), m);
                    return o;
                }
            }
            o.hash = str_hash(&params.to_string());
            o.nontrivial = true;
            o.count("probe_real_rayon_runs", 1);
        } else {
            let cfg = sim_cfg(&params["sim"]);
            let (rep, out) = run_sim(&cfg, body);
            o.sim_time_ns = rep.sim_time_ns;
            o.hash = mix(mix(rep.sched_hash, rep.event_hash), str_hash(&params.to_string()));
            o.nontrivial = rep.context_switches >= 2 || spec.n_chains == 1 || fam == "HMC";
            if want_sample {
                o.sample = Some(report_json(&rep));
                o.schedule = Some(rep.schedule.clone());
            }
            if sim_failure_violation(&mut o, &rep, &format!("{fam}::run")) {
                return o;
            }
            match out {
                Some(x) => got = x,
                None => {
                    o.harness_error = Some("no value".into());
                    return o;
                }
            }
        }
        let (outs, states, steps) = match got {
            Ok(x) => x,
            Err(e) => {
                if e.contains("HARNESS-ERROR") {
                    o.harness_error = Some(e);
                } else {
                    o.violate("run_err", &format!("{fam}::run:Err"), e);
                }
                return o;
            }
        };
        // (2) reference A: the same history on an identically built sampler, sequentially
        //     (NUTS: its chains built and run individually with the documented seeds)
        let reference = (|| -> Result<Vec<RunOut>, String> {
            let mut s = build(&spec)?;
            calls.iter().map(|(c, d)| s.run(*c, *d, Mode::Sequential)).collect()
        })();
        let reference = match reference {
            Ok(r) => r,
            Err(e) => {
                o.harness_error = Some(format!("reference failed: {e}"));
                return o;
            }
        };
        let mut dim = 0;
        for (i, ((bits, shape), r)) in outs.iter().zip(reference.iter()).enumerate() {
            dim = shape[2];
            o.work += (spec.n_chains * (calls[i].0 + calls[i].1)) as u64 * 2;
            if *shape != [spec.n_chains, calls[i].0, r.shape[2]] {
                o.violate("shape", &format!("{fam}::run:shape"), format!("{} call {i} run({}, {}) returned shape {:?}", spec.kind, calls[i].0, calls[i].1, shape));
                return o;
            }
            if *bits != r.bits {
                let what = if nuts { "its chains run individually (seeds seed+c+1)" } else { "the chains run one after the other" };
                o.violate("differs_from_individual_chains", &format!("{fam}::run:differs-from-chains-run-individually"), format!("{} call {i} run({}, {}) differs from {what}", spec.kind, calls[i].0, calls[i].1));
                return o;
            }
        }
        // (3) the sampler is left at the last returned state (NUTS too: its last row is its position)
        for (i, ((bits, shape), st)) in outs.iter().zip(states.iter()).enumerate() {
            if shape[1] == 0 {
                continue;
            }
            for c in 0..shape[0] {
                let last = &bits[(c * shape[1] + shape[1] - 1) * dim..(c * shape[1] + shape[1]) * dim];
                if last != &st[c * dim..(c + 1) * dim] {
                    o.violate("left_state", &format!("{fam}::run:left-state"), format!("{} after call {i} chain {c} is not left at its last returned draw", spec.kind));
                    return o;
                }
            }
        }
        // (4) MH / Gibbs / HMC: one long run and manual stepping reproduce the history
        if !nuts {
            let total: usize = calls.iter().map(|(c, d)| c + d).sum();
            let long = (|| -> Result<RunOut, String> { build(&spec)?.run(total, 0, Mode::Sequential) })();
            match long {
                Err(e) => o.harness_error = Some(format!("long run failed: {e}")),
                Ok(long) => {
                    let mut off = 0;
                    for (i, ((bits, shape), (c, d))) in outs.iter().zip(calls.iter()).enumerate() {
                        off += d;
                        for ch in 0..shape[0] {
                            for k in 0..*c {
                                let a = &bits[(ch * c + k) * dim..(ch * c + k + 1) * dim];
                                let b = &long.bits[(ch * total + off + k) * dim..(ch * total + off + k + 1) * dim];
                                if a != b {
                                    o.violate("continuation", &format!("{fam}::run:continuation"), format!("{} call {i}: draw {k} of chain {ch} is not transition {} of one long run", spec.kind, off + k + 1));
                                    return o;
                                }
                            }
                        }
                        off += c;
                    }
                    o.count("probe_continuation_checked", 1);
                }
            }
            // manual stepping: after total transitions the state equals the state the history left
            if let Ok(mut s) = build(&spec) {
                if s.manual_steps(total).is_some() {
                    if let Some(last) = states.last() {
                        if s.state_bits() != *last {
                            o.violate("transition_count", &format!("{fam}::run:transitions"), format!("{}: after the history {:?} the sampler is not where {total} manual transitions lead", spec.kind, calls));
                        }
                    }
                }
            }
        }
        // (5) transitions performed, from the draw trace: HMC n_collect + n_discard, NUTS n_collect + n_discard - 1 per chain
        for (i, (c, d)) in calls.iter().enumerate() {
            if real || fam == "MH" || fam == "Gibbs" {
                break; // the trace sink is per OS thread: only meaningful inside the one-thread simulation
            }
            let want = if nuts { (c + d).saturating_sub(1) * spec.n_chains } else { c + d };
            if steps[i] != want {
                o.violate("transition_count", &format!("{fam}::run:transitions"), format!("{} call {i} run({c}, {d}) performed {} transitions, expected {want}", spec.kind, steps[i]));
            }
        }
        o.count("probe_multi_call_history", (calls.len() >= 2) as u64);
        o.count(&format!("probe_family_{fam}"), 1);
        o
    }
    fn shrink(&self, p: &Value) -> Vec<Value> {
        let mut out: Vec<Value> = crate::props::c07::shrink_spec(&p["spec"]).into_iter().map(|s| with(p, "spec", s)).collect();
        let calls = p["calls"].as_array().unwrap();
        let nuts = ps(&p["spec"], "kind").starts_with("nuts");
        if calls.len() > 1 {
            out.push(with(p, "calls", Value::Array(calls[..calls.len() - 1].to_vec())));
            out.push(with(p, "calls", Value::Array(calls[1..].to_vec())));
        }
        for (i, c) in calls.iter().enumerate() {
            for slot in [0usize, 1] {
                let cur = c[slot].as_u64().unwrap();
                let lo = if slot == 0 && nuts { 1 } else { 0 };
                for cand in [lo, cur / 2, cur.saturating_sub(1)] {
                    if cand < cur && cand >= lo {
                        let mut cs = calls.clone();
                        let mut pair = c.as_array().unwrap().clone();
                        pair[slot] = json!(cand);
                        cs[i] = Value::Array(pair);
                        out.push(with(p, "calls", Value::Array(cs)));
                    }
                }
            }
        }
        shrink_sim(p, &mut out);
        out
    }
    fn rule(&self) -> &'static str {
        "one run = a history of 1-3 run() calls on a real seeded sampler (15 kinds incl. mixed precision and a one-dimensional HMC state) under W simulated workers and a seeded schedule (1/8: real rayon); compared with the chains run individually/sequentially, with one long run, with manual stepping, and with the number of transitions in the draw trace; non-trivial = >= 2 context switches (single chain / HMC: any)"
    }
    fn components(&self) -> Value {
        json!({"real": ["MH/Gibbs via ChainRunner::run", "HMC::run", "NUTS::run", "NUTSChain::run"], "stub": ["pool = simulated workers", "harness targets"]})
    }
}
