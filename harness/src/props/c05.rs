//! C05 — Gibbs step refreshes every coordinate once, conditioning on the freshest state.

use super::*;
use crate::props::c10::sim_failure_violation;
use mcmc_sim::sim::run_sim;
use mini_mcmc::core::{ChainRunner, MarkovChain};
use mini_mcmc::distributions::Conditional;
use mini_mcmc::gibbs::{GibbsMarkovChain, GibbsSampler};
use std::sync::{Arc, Mutex};

pub fn def() -> PropertyDef {
    PropertyDef {
        id: "C05",
        level: "exploration",
        scenarios: vec![Box::new(CallHistory), Box::new(Interleaved), Box::new(Invariance), Box::new(SamplerHistory), Box::new(PanicFault)],
        assumptions: vec!["the Conditional is the harness's recording stub: every call (index, given) is logged and every returned value is unique, so each write is attributable to one call"],
    }
}

/// recording conditional: logs (chain tag, index, given) and returns a unique value per call
#[derive(Clone)]
struct RecCond {
    tag: u64,
    log: Arc<Mutex<Vec<(u64, usize, Vec<f64>, f64)>>>,
    calls: u64,
    nan_answers: bool,
}
trait GElt: Copy + PartialEq + std::fmt::Debug + Send + Sync + 'static {
    fn of(v: u64) -> Self;
    fn f(self) -> f64;
    /// a value that is not equal to itself where the type has one (floats: a NaN with a payload)
    fn nan_like(v: u64) -> Self {
        Self::of(v)
    }
}
impl GElt for f64 {
    fn of(v: u64) -> f64 {
        v as f64 + 0.5
    }
    fn f(self) -> f64 {
        self
    }
    fn nan_like(v: u64) -> f64 {
        f64::from_bits(0x7ff8_0000_0000_0000 | (v & 0xffff_ffff))
    }
}
impl GElt for f32 {
    fn of(v: u64) -> f32 {
        v as f32 + 0.5
    }
    fn f(self) -> f64 {
        self as f64
    }
}
impl GElt for i32 {
    fn of(v: u64) -> i32 {
        v as i32
    }
    fn f(self) -> f64 {
        self as f64
    }
}
impl GElt for usize {
    fn of(v: u64) -> usize {
        v as usize
    }
    fn f(self) -> f64 {
        self as f64
    }
}
impl<S: GElt> Conditional<S> for RecCond {
    fn sample(&mut self, index: usize, given: &[S]) -> S {
        self.calls += 1;
        // unique per (chain tag, call number): tag * 2^14 + call number (exact in f32 for the bounds used);
        // every 7th answer of a float-valued conditional is a NaN (an answer is an answer: it has to be
        // stored and handed on like any other value)
        let v = if self.nan_answers && self.calls % 7 == 3 { S::nan_like(self.tag * 16384 + self.calls) } else { S::of(self.tag * 16384 + self.calls) };
        self.log.lock().unwrap().push((self.tag, index, given.iter().map(|x| x.f()).collect(), v.f()));
        v
    }
}

/// check one step's call records against the model; `before` is the state before the step
fn check_step(o: &mut Outcome, d: usize, before: &[f64], calls: &[(u64, usize, Vec<f64>, f64)], after: &[f64], site: &str) {
    if calls.len() != d {
        o.violate("call_count", &format!("{site}:calls-per-step"), format!("{} conditional calls in one step of a {d}-dimensional chain", calls.len()));
        return;
    }
    let mut seen = vec![false; d];
    let mut model = before.to_vec();
    for (k, (_, idx, given, ret)) in calls.iter().enumerate() {
        if *idx >= d {
            o.violate("index_range", &format!("{site}:index-out-of-range"), format!("conditional asked for coordinate {idx} of {d}"));
            return;
        }
        if seen[*idx] {
            o.violate("coordinate_twice", &format!("{site}:coordinate-refreshed-twice"), format!("coordinate {idx} refreshed twice in one step (call {k})"));
            return;
        }
        seen[*idx] = true;
        if given.len() != d || given.iter().zip(model.iter()).any(|(a, b)| a.to_bits() != b.to_bits()) {
            o.violate("stale_given", &format!("{site}:given-not-freshest-state"), format!("call {k} (coordinate {idx}): given = {given:?} but the freshest state is {model:?}"));
            return;
        }
        model[*idx] = *ret;
    }
    if seen.iter().any(|s| !*s) {
        o.violate("coordinate_skipped", &format!("{site}:coordinate-skipped"), format!("coordinates refreshed: {seen:?}"));
        return;
    }
    if after.len() != d || after.iter().zip(model.iter()).any(|(a, b)| a.to_bits() != b.to_bits()) {
        o.violate("state_after", &format!("{site}:state-after-step"), format!("state after the step {after:?}, expected {model:?}"));
    }
}

/// recording conditional over an element type that owns heap memory (not Copy): `MarkovChain::step` is
/// implemented for every element type, and all fields of the chain are public
#[derive(Clone)]
struct BoxCond {
    log: Arc<Mutex<Vec<(u64, usize, Vec<f64>, f64)>>>,
    calls: u64,
}
impl Conditional<Box<i64>> for BoxCond {
    fn sample(&mut self, index: usize, given: &[Box<i64>]) -> Box<i64> {
        self.calls += 1;
        let v = 100_000 + self.calls as i64;
        self.log.lock().unwrap().push((1, index, given.iter().map(|b| **b as f64).collect(), v as f64));
        Box::new(v)
    }
}
fn boxed_history(p: &Value) -> Outcome {
    use rand::SeedableRng;
    let mut o = Outcome::default();
    let d = pus(p, "d").min(40);
    let log = Arc::new(Mutex::new(vec![]));
    let mut chain = GibbsMarkovChain { target: BoxCond { log: log.clone(), calls: 0 }, current_state: (0..d).map(|j| Box::new(9000 + j as i64)).collect::<Vec<Box<i64>>>(), seed: pu(p, "chain_seed"), rng: rand::rngs::SmallRng::seed_from_u64(1) };
    let mut before: Vec<f64> = chain.current_state.iter().map(|b| **b as f64).collect();
    for _ in 0..pus(p, "steps") {
        log.lock().unwrap().clear();
        let _ = chain.step();
        let after: Vec<f64> = chain.current_state.iter().map(|b| **b as f64).collect();
        let calls = log.lock().unwrap().clone();
        check_step(&mut o, d, &before, &calls, &after, "GibbsMarkovChain::step[Box<i64>]");
        before = after;
        o.work += 1;
        if !o.violations.is_empty() {
            break;
        }
    }
    o.hash = str_hash(&p.to_string());
    o.nontrivial = d >= 2;
    o.count("probe_non_copy_element_type", 1);
    o
}

/// recording conditional over a zero-sized element type (`()`): the step is implemented for every element
/// type, so a state of n unit values still has n coordinates, each of which is asked for once per step
#[derive(Clone)]
struct UnitCond {
    log: Arc<Mutex<Vec<(u64, usize, Vec<f64>, f64)>>>,
}
impl Conditional<()> for UnitCond {
    fn sample(&mut self, index: usize, given: &[()]) -> () {
        self.log.lock().unwrap().push((1, index, vec![0.0; given.len()], 0.0));
    }
}
fn unit_history(p: &Value) -> Outcome {
    use rand::SeedableRng;
    let mut o = Outcome::default();
    let d = pus(p, "d");
    let log = Arc::new(Mutex::new(vec![]));
    let mut chain = GibbsMarkovChain { target: UnitCond { log: log.clone() }, current_state: vec![(); d], seed: pu(p, "chain_seed"), rng: rand::rngs::SmallRng::seed_from_u64(1) };
    let before = vec![0.0f64; d];
    for _ in 0..pus(p, "steps") {
        log.lock().unwrap().clear();
        let n_after = chain.step().len();
        let calls = log.lock().unwrap().clone();
        check_step(&mut o, d, &before, &calls, &vec![0.0f64; n_after], "GibbsMarkovChain::step[()]");
        o.work += 1;
        if !o.violations.is_empty() {
            break;
        }
    }
    o.hash = str_hash(&p.to_string());
    o.nontrivial = d >= 2;
    o.count("probe_zero_sized_element_type", 1);
    o
}

struct CallHistory;
fn call_history<S: GElt + ndarray::LinalgScalar>(p: &Value, ws: bool) -> Outcome {
    let mut o = Outcome::default();
    let d = pus(p, "d");
    let steps = pus(p, "steps");
    let log = Arc::new(Mutex::new(vec![]));
    let cond = RecCond { tag: 1, log: log.clone(), calls: 0, nan_answers: p.get("nan_answers").and_then(|v| v.as_bool()).unwrap_or(false) };
    let init: Vec<S> = (0..d).map(|j| S::of(9000 + j as u64)).collect();
    let mut chain = GibbsMarkovChain::new(cond, &init);
    // the chain's seed is an input too (pub field): special values incl. the largest
    chain.seed = pu(p, "chain_seed");
    let mut before: Vec<f64> = init.iter().map(|x| x.f()).collect();
    let mut h = 0u64;
    for _ in 0..steps {
        log.lock().unwrap().clear();
        let ret: Vec<f64> = chain.step().iter().map(|x| x.f()).collect();
        let after: Vec<f64> = chain.current_state.iter().map(|x| x.f()).collect();
        let calls = log.lock().unwrap().clone();
        check_step(&mut o, d, &before, &calls, &after, "GibbsMarkovChain::step");
        if ret.iter().zip(after.iter()).any(|(a, b)| a.to_bits() != b.to_bits()) {
            o.violate("return_value", "GibbsMarkovChain::step:return", "step() returned something else than the chain's state".into());
        }
        for c in &calls {
            h = mix(h, c.1 as u64);
        }
        before = after;
        o.work += 1;
    }
    o.hash = mix(h, str_hash(&p.to_string()));
    o.nontrivial = d >= 2;
    o.count("probe_dim_ge_32", (d >= 32) as u64);
    if ws {
        o.sample = Some(json!({"d": d, "last_step_calls": log.lock().unwrap().iter().take(6).map(|c| json!({"index": c.1, "given": c.2, "returned": c.3})).collect::<Vec<_>>()}));
    }
    o
}
/// Several chains of different dimension (and element type) alive at once and stepped in a seeded
/// interleaving on one thread: every step of every chain is a full sweep of ITS coordinates over ITS
/// freshest state, whatever other chains the process holds.
struct Interleaved;
impl Scenario for Interleaved {
    fn name(&self) -> &'static str {
        "gibbs_interleaved_chains"
    }
    fn runs(&self, tier: Tier) -> u64 {
        tier.pick(6_000, 200_000)
    }
    fn generate(&self, g: &mut Gen, _t: Tier, _i: u64) -> Value {
        let n = g.usize(2, 4);
        let dims: Vec<usize> = (0..n).map(|_| crate::core::size(g, 1, 20, 130)).collect();
        let order: Vec<usize> = (0..g.usize(n, 24)).map(|_| g.usize(0, n - 1)).collect();
        json!({"dims": dims, "ints": (0..n).map(|_| g.bool(1, 3)).collect::<Vec<_>>(), "order": order})
    }
    fn execute(&self, p: &Value, ws: bool) -> Outcome {
        let mut o = Outcome::default();
        let dims: Vec<usize> = p["dims"].as_array().unwrap().iter().map(|v| v.as_u64().unwrap() as usize).collect();
        let ints: Vec<bool> = p["ints"].as_array().unwrap().iter().map(|v| v.as_bool().unwrap_or(false)).collect();
        let order: Vec<usize> = p["order"].as_array().unwrap().iter().map(|v| v.as_u64().unwrap() as usize).collect();
        enum Ch {
            F(GibbsMarkovChain<f64, RecCond>),
            I(GibbsMarkovChain<i32, RecCond>),
        }
        let mut logs = vec![];
        let mut chains: Vec<Ch> = vec![];
        let mut before: Vec<Vec<f64>> = vec![];
        for (k, d) in dims.iter().enumerate() {
            let log = Arc::new(Mutex::new(vec![]));
            let cond = RecCond { tag: k as u64 + 1, log: log.clone(), calls: 0, nan_answers: false };
            if ints[k] {
                let init: Vec<i32> = (0..*d).map(|j| <i32 as GElt>::of(9000 + j as u64)).collect();
                before.push(init.iter().map(|x| x.f()).collect());
                chains.push(Ch::I(GibbsMarkovChain::new(cond, &init)));
            } else {
                let init: Vec<f64> = (0..*d).map(|j| <f64 as GElt>::of(9000 + j as u64)).collect();
                before.push(init.clone());
                chains.push(Ch::F(GibbsMarkovChain::new(cond, &init)));
            }
            logs.push(log);
        }
        let mut h = 0u64;
        for &k in &order {
            if k >= chains.len() {
                continue;
            }
            logs[k].lock().unwrap().clear();
            let after: Vec<f64> = match &mut chains[k] {
                Ch::F(c) => c.step().iter().map(|x| x.f()).collect(),
                Ch::I(c) => c.step().iter().map(|x| x.f()).collect(),
            };
            let calls = logs[k].lock().unwrap().clone();
            check_step(&mut o, dims[k], &before[k], &calls, &after, "GibbsMarkovChain::step[several chains alive]");
            // no other chain's conditional may have been asked
            for (j, l) in logs.iter().enumerate() {
                if j != k && l.lock().unwrap().iter().any(|c| c.0 != j as u64 + 1) {
                    o.violate("foreign_call", "GibbsMarkovChain::step:foreign-conditional", format!("a step of chain {k} reached the conditional of chain {j}"));
                }
            }
            for c in &calls {
                h = mix(h, c.1 as u64 + 131 * k as u64);
            }
            before[k] = after;
            o.work += 1;
            if !o.violations.is_empty() {
                break;
            }
        }
        o.hash = mix(h, str_hash(&p.to_string()));
        o.nontrivial = dims.iter().any(|d| *d >= 2);
        o.count("probe_chains_of_different_dimension", (dims.iter().collect::<std::collections::BTreeSet<_>>().len() >= 2) as u64);
        if ws {
            o.sample = Some(json!({"dims": dims, "steps": order.len()}));
        }
        o
    }
    fn shrink(&self, p: &Value) -> Vec<Value> {
        let mut out = vec![];
        let order = p["order"].as_array().unwrap();
        if order.len() > 1 {
            out.push(with(p, "order", Value::Array(order[..order.len() - 1].to_vec())));
            out.push(with(p, "order", Value::Array(order[1..].to_vec())));
        }
        let dims = p["dims"].as_array().unwrap();
        for i in 0..dims.len() {
            let cur = dims[i].as_u64().unwrap();
            for cand in [1, cur / 2, cur.saturating_sub(1)] {
                if cand >= 1 && cand < cur {
                    let mut d = dims.clone();
                    d[i] = json!(cand);
                    out.push(with(p, "dims", Value::Array(d)));
                }
            }
        }
        out
    }
    fn rule(&self) -> &'static str {
        "one run = 2..4 chains of dimensions 1..20 (or at a dictionary threshold up to 130), f64 or i32 states, alive at once and stepped 2..24 times in a seeded interleaving on one thread; every step checked against the sweep model of its own chain; distinct = hash of (call indices, parameters)"
    }
    fn components(&self) -> Value {
        json!({"real": ["GibbsMarkovChain::new/step"], "stub": ["recording conditional"]})
    }
}

impl Scenario for CallHistory {
    fn name(&self) -> &'static str {
        "gibbs_call_history"
    }
    fn runs(&self, tier: Tier) -> u64 {
        tier.pick(60_000, 2_000_000)
    }
    fn generate(&self, g: &mut Gen, _t: Tier, _i: u64) -> Value {
        let cs = crate::props::c07::special_seed(g, 4);
        json!({"elt": *g.pick(&["f64", "f64", "f32", "i32", "usize", "boxed", "unit"]), "d": crate::core::size(g, 1, 64, 300), "steps": g.usize(1, 20), "chain_seed": cs.to_string(), "nan_answers": g.bool(1, 3)})
    }
    fn execute(&self, p: &Value, ws: bool) -> Outcome {
        match ps(p, "elt") {
            "f32" => call_history::<f32>(p, ws),
            "i32" => call_history::<i32>(p, ws),
            "usize" => call_history::<usize>(p, ws),
            "boxed" => boxed_history(p),
            "unit" => unit_history(p),
            _ => call_history::<f64>(p, ws),
        }
    }
    fn shrink(&self, p: &Value) -> Vec<Value> {
        let mut out = vec![];
        shrink_int(p, "d", 1, &mut out);
        shrink_int(p, "steps", 1, &mut out);
        if ps(p, "elt") != "f64" {
            out.push(with(p, "elt", json!("f64")));
        }
        out
    }
    fn rule(&self) -> &'static str {
        "one run = 1..20 steps of a Gibbs chain of dimension 1..64 (f64/f32/i32/usize states) with a recording conditional returning unique values; non-trivial = dimension >= 2; distinct = hash of the index order of all calls and parameters"
    }
    fn components(&self) -> Value {
        json!({"real": ["GibbsMarkovChain::step"], "stub": ["Conditional = recording stub"]})
    }
}

// ---- exact invariance on small tables -------------------------------------------------------
/// conditional that returns scripted values and records `given`
#[derive(Clone)]
struct ScriptCond {
    script: Arc<Mutex<(Vec<usize>, usize, Vec<(usize, Vec<usize>)>)>>, // values to return, cursor, (index, given)
}
impl Conditional<usize> for ScriptCond {
    fn sample(&mut self, index: usize, given: &[usize]) -> usize {
        let mut s = self.script.lock().unwrap();
        let cur = s.1;
        let v = s.0[cur % s.0.len()];
        s.1 += 1;
        s.2.push((index, given.to_vec()));
        v
    }
}
struct Invariance;
impl Scenario for Invariance {
    fn name(&self) -> &'static str {
        "gibbs_exact_invariance"
    }
    fn runs(&self, tier: Tier) -> u64 {
        tier.pick(2000, 100_000)
    }
    fn generate(&self, g: &mut Gen, _t: Tier, _i: u64) -> Value {
        json!({"d": g.usize(1, 4), "gseed": g.u64()})
    }
    fn execute(&self, p: &Value, ws: bool) -> Outcome {
        // joint table on {0,1,2}^d; kernel assembled from the full conditionals *evaluated at the
        // `given` the library passed*: K(s -> s') = prod_k P(x_{i_k} = v_k | given_k). pi K = pi must hold.
        let mut o = Outcome::default();
        let d = pus(p, "d");
        let mut g = Gen::new(pu(p, "gseed"));
        let m = 3usize;
        let ns = m.pow(d as u32);
        let w: Vec<f64> = (0..ns).map(|_| g.log_uniform(1e-2, 1.0)).collect();
        let z: f64 = w.iter().sum();
        let pi: Vec<f64> = w.iter().map(|x| x / z).collect();
        let dec = |mut s: usize| -> Vec<usize> {
            let mut v = vec![0; d];
            for j in 0..d {
                v[j] = s % m;
                s /= m;
            }
            v
        };
        let enc = |v: &[usize]| -> usize { v.iter().enumerate().map(|(j, x)| x * m.pow(j as u32)).sum() };
        let cond = |idx: usize, given: &[usize], val: usize| -> f64 {
            let mut num = 0.0;
            let mut den = 0.0;
            for a in 0..m {
                let mut s = given.to_vec();
                s[idx] = a;
                let pr = pi[enc(&s)];
                den += pr;
                if a == val {
                    num = pr;
                }
            }
            num / den
        };
        let mut k = vec![vec![0.0f64; ns]; ns];
        for s in 0..ns {
            for vals in 0..ns {
                // scripted return values for the d calls of this step
                let ret = dec(vals);
                let script = Arc::new(Mutex::new((ret.clone(), 0usize, vec![])));
                let mut chain = GibbsMarkovChain::new(ScriptCond { script: script.clone() }, &dec(s));
                chain.step();
                o.work += 1;
                let rec = script.lock().unwrap().2.clone();
                let mut prob = 1.0;
                for (call, (idx, given)) in rec.iter().enumerate() {
                    if *idx >= d || given.len() != d || given.iter().any(|x| *x >= m) {
                        o.violate("index_range", "GibbsMarkovChain::step:index-out-of-range", format!("call {call}: index {idx}, given {given:?}"));
                        return o;
                    }
                    prob *= cond(*idx, given, ret[call % d]);
                }
                if rec.len() != d {
                    // wrong number of calls: the kernel below cannot be a product of d conditionals
                    o.violate("call_count", "GibbsMarkovChain::step:calls-per-step", format!("{} calls for d = {d}", rec.len()));
                    return o;
                }
                let dest = chain.current_state.clone();
                if dest.iter().any(|x| *x >= m) {
                    o.violate("state_after", "GibbsMarkovChain::step:state-after-step", format!("state {dest:?}"));
                    return o;
                }
                k[s][enc(&dest)] += prob;
            }
        }
        // each scripted value vector is one outcome of the d draws; summing over all of them gives the kernel
        for s in 0..ns {
            let row: f64 = k[s].iter().sum();
            if (row - 1.0).abs() > 1e-9 {
                o.violate("kernel_row_sum", "GibbsMarkovChain::step:kernel-not-stochastic", format!("row {s} of the assembled kernel sums to {row}"));
                return o;
            }
        }
        for t in 0..ns {
            let s: f64 = (0..ns).map(|a| pi[a] * k[a][t]).sum();
            if (s - pi[t]).abs() > 1e-12 + 1e-9 * pi[t] {
                o.violate("not_invariant", "GibbsMarkovChain::step:joint-not-invariant", format!("(pi K)({:?}) = {s:e} but pi = {:e}", dec(t), pi[t]));
                break;
            }
        }
        o.hash = str_hash(&p.to_string());
        o.nontrivial = d >= 2;
        if ws {
            o.sample = Some(json!({"d": d, "states": ns, "pi_head": pi.iter().take(6).collect::<Vec<_>>()}));
        }
        o
    }
    fn shrink(&self, p: &Value) -> Vec<Value> {
        let mut out = vec![];
        shrink_int(p, "d", 1, &mut out);
        out
    }
    fn rule(&self) -> &'static str {
        "one run = a random joint table on {0,1,2}^d, d 1..4; for every start state and every vector of scripted return values one real step; kernel = product of the true full conditionals evaluated at the `given` the library passed; pi K = pi to 1e-9; non-trivial = d >= 2"
    }
    fn components(&self) -> Value {
        json!({"real": ["GibbsMarkovChain::step"], "stub": ["Conditional = scripted values + recorder"]})
    }
}

// ---- multi-chain sampler under simulated workers: nothing else changes ----------------------
struct SamplerHistory;
impl Scenario for SamplerHistory {
    fn name(&self) -> &'static str {
        "gibbs_sampler_run"
    }
    fn runs(&self, tier: Tier) -> u64 {
        tier.pick(4000, 200_000)
    }
    fn generate(&self, g: &mut Gen, _t: Tier, _i: u64) -> Value {
        let nc = g.usize(1, 16);
        let ss = crate::props::c07::special_seed(g, nc);
        json!({"n_chains": nc, "d": crate::core::size(g, 1, 12, 130), "n_collect": g.usize(1, 8), "n_discard": g.usize(0, 5), "sampler_seed": ss.to_string(), "nan_answers": g.bool(1, 3), "sim": gen_sim(g, nc + 1, false)})
    }
    fn execute(&self, p: &Value, ws: bool) -> Outcome {
        let mut o = Outcome::default();
        let (nc, d, ncol, ndis) = (pus(p, "n_chains"), pus(p, "d"), pus(p, "n_collect"), pus(p, "n_discard"));
        let log = Arc::new(Mutex::new(vec![]));
        let log2 = log.clone();
        let sseed = pu(p, "sampler_seed");
        let nan_answers = p.get("nan_answers").and_then(|v| v.as_bool()).unwrap_or(false);
        let cfg = sim_cfg(&p["sim"]);
        let (rep, out) = run_sim(&cfg, move || {
            let cond = RecCond { tag: 0, log: log2.clone(), calls: 0, nan_answers: nan_answers };
            let init: Vec<Vec<f64>> = (0..nc).map(|c| (0..d).map(|j| 9000.0 + (c * 100 + j) as f64).collect()).collect();
            let mut s = GibbsSampler::new(cond, init).set_seed(sseed);
            for (c, ch) in s.chains.iter_mut().enumerate() {
                ch.target.tag = c as u64 + 1;
            }
            let arr = s.run(ncol, ndis).map_err(|e| e.to_string());
            let finals: Vec<Vec<f64>> = s.chains.iter().map(|c| c.current_state.clone()).collect();
            (arr, finals)
        });
        o.hash = mix(mix(rep.sched_hash, rep.event_hash), str_hash(&p.to_string()));
        o.nontrivial = rep.context_switches >= 2 || nc == 1;
        o.sim_time_ns = rep.sim_time_ns;
        if ws {
            o.sample = Some(report_json(&rep));
            o.schedule = Some(rep.schedule.clone());
        }
        if sim_failure_violation(&mut o, &rep, "GibbsSampler::run") {
            return o;
        }
        let Some((arr, finals)) = out else {
            o.harness_error = Some("no value".into());
            return o;
        };
        let arr = match arr {
            Ok(a) => a,
            Err(e) => {
                o.violate("run_err", "GibbsSampler::run:Err", e);
                return o;
            }
        };
        // per chain: replay its call log against the model, step by step
        let all = log.lock().unwrap().clone();
        for c in 0..nc {
            let calls: Vec<_> = all.iter().filter(|r| r.0 == c as u64 + 1).cloned().collect();
            let total = ncol + ndis;
            if calls.len() != total * d {
                o.violate("call_count", "GibbsSampler::run:calls-per-chain", format!("chain {c}: {} conditional calls for {total} steps of dimension {d}", calls.len()));
                return o;
            }
            let mut before: Vec<f64> = (0..d).map(|j| 9000.0 + (c * 100 + j) as f64).collect();
            for s in 0..total {
                let step_calls = &calls[s * d..(s + 1) * d];
                let mut after = before.clone();
                for (_, idx, _, ret) in step_calls {
                    if *idx < d {
                        after[*idx] = *ret;
                    }
                }
                let observed: Vec<f64> = if s >= ndis { (0..d).map(|j| arr[[c, s - ndis, j]]).collect() } else { after.clone() };
                check_step(&mut o, d, &before, step_calls, &observed, "GibbsSampler::run");
                before = after;
                o.work += 1;
            }
            if finals[c].iter().zip(before.iter()).any(|(a, b)| a.to_bits() != b.to_bits()) {
                o.violate("state_after", "GibbsSampler::run:left-state", format!("chain {c} left at {:?}, expected {:?}", finals[c], before));
            }
        }
        o
    }
    fn shrink(&self, p: &Value) -> Vec<Value> {
        let mut out = vec![];
        shrink_int(p, "n_chains", 1, &mut out);
        shrink_int(p, "d", 1, &mut out);
        shrink_int(p, "n_collect", 1, &mut out);
        shrink_int(p, "n_discard", 0, &mut out);
        shrink_sim(p, &mut out);
        out
    }
    fn rule(&self) -> &'static str {
        "one run = GibbsSampler::run on 1..16 chains of dimension 1..12 under W simulated workers and a seeded schedule; every chain's full call log is replayed against the sweep model (other chains and coordinates untouched); non-trivial = >= 2 context switches; distinct = hash of (schedule, events, parameters)"
    }
    fn components(&self) -> Value {
        json!({"real": ["GibbsSampler", "GibbsMarkovChain::step", "ChainRunner::run"], "stub": ["recording Conditional", "pool = simulated workers"]})
    }
}

// ---- fault: the user's conditional panics in the middle of a sweep ----------------------------
/// recording conditional that panics at its `fail_at`-th call (once)
#[derive(Clone)]
struct FaultyCond {
    log: Arc<Mutex<Vec<(u64, usize, Vec<f64>, f64)>>>,
    calls: u64,
    fail_at: u64,
}
impl Conditional<f64> for FaultyCond {
    fn sample(&mut self, index: usize, given: &[f64]) -> f64 {
        self.calls += 1;
        if self.calls == self.fail_at {
            panic!("VERIF-INJECTED conditional failure");
        }
        let v = 0.5 + self.calls as f64;
        self.log.lock().unwrap().push((1, index, given.to_vec(), v));
        v
    }
}
struct PanicFault;
impl Scenario for PanicFault {
    fn name(&self) -> &'static str {
        "gibbs_conditional_panics"
    }
    fn runs(&self, tier: Tier) -> u64 {
        tier.pick(15_000, 500_000)
    }
    fn generate(&self, g: &mut Gen, _t: Tier, _i: u64) -> Value {
        let d = g.usize(1, 16);
        let before = g.usize(0, 3);
        json!({"d": d, "steps_before": before, "fail_call": g.usize(1, d), "steps_after": g.usize(1, 4)})
    }
    fn execute(&self, p: &Value, ws: bool) -> Outcome {
        // the chain survives a panicking user callback (caught by the caller, as in a worker-thread join):
        // coordinates refreshed before the failure hold their new values, everything else is unchanged,
        // and later steps are ordinary full sweeps
        let mut o = Outcome::default();
        let (d, sb, fc, sa) = (pus(p, "d"), pus(p, "steps_before"), pus(p, "fail_call"), pus(p, "steps_after"));
        let log = Arc::new(Mutex::new(vec![]));
        let cond = FaultyCond { log: log.clone(), calls: 0, fail_at: (sb * d + fc) as u64 };
        let init: Vec<f64> = (0..d).map(|j| 9000.0 + j as f64).collect();
        let mut chain = GibbsMarkovChain::new(cond, &init);
        let mut before = init.clone();
        for _ in 0..sb {
            log.lock().unwrap().clear();
            chain.step();
            let calls = log.lock().unwrap().clone();
            check_step(&mut o, d, &before, &calls, &chain.current_state, "GibbsMarkovChain::step");
            before = chain.current_state.clone();
        }
        log.lock().unwrap().clear();
        let _ = mcmc_sim::sim::take_last_panic();
        let r = std::panic::catch_unwind(std::panic::AssertUnwindSafe(|| {
            chain.step();
        }));
        o.count("fault_conditional_panicked", r.is_err() as u64);
        if r.is_ok() {
            // the failing call is call number fc <= d of this step: a full sweep must reach it. If the
            // preceding steps were ordinary sweeps (checked above) and the failure still did not fire, this
            // step asked the conditional fewer than fc times; otherwise the fault plan itself is off.
            let n_calls = log.lock().unwrap().len();
            let requests = chain.target.calls.saturating_sub((sb * d) as u64);
            if o.violations.is_empty() && chain.target.calls >= (sb * d + fc) as u64 {
                // the failing request was made (the stub counts it) and step() came back all the same: the
                // failure was swallowed inside the step
                o.violate("failure_swallowed", "GibbsMarkovChain::step:conditional-failure-swallowed", format!("the conditional failed at request {fc} of a step of a {d}-dimensional chain and step() returned normally after {requests} requests: the caller never learns of the failure, and the coordinate was asked again"));
            }
            if o.violations.is_empty() && n_calls < fc {
                o.violate("call_count", "GibbsMarkovChain::step:calls-per-step", format!("{n_calls} conditional calls in a step of a {d}-dimensional chain (the injected failure at call {fc} was never reached)"));
            } else if o.violations.is_empty() {
                o.harness_error = Some("injected conditional failure did not fire".into());
            }
            o.nontrivial = true;
            o.hash = str_hash(&p.to_string());
            return o;
        }
        let msg = mcmc_sim::sim::take_last_panic().unwrap_or_default();
        if !msg.contains("VERIF-INJECTED") {
            o.violate("panic", "GibbsMarkovChain::step:other-panic", format!("a different panic than the injected one: {msg}"));
            return o;
        }
        let calls = log.lock().unwrap().clone();
        let mut model = before.clone();
        for (_, idx, _, ret) in &calls {
            if *idx < d {
                model[*idx] = *ret;
            }
        }
        let now = chain.current_state.clone();
        if now.len() != d || now.iter().zip(model.iter()).any(|(a, b)| a.to_bits() != b.to_bits()) {
            o.violate("state_after_fault", "GibbsMarkovChain::step:state-after-conditional-failure", format!("after the conditional failed at call {fc} of the sweep the state is {now:?}; refreshed coordinates should hold their new values and the others stay: {model:?}"));
            return o;
        }
        before = now;
        for _ in 0..sa {
            log.lock().unwrap().clear();
            chain.step();
            let calls = log.lock().unwrap().clone();
            check_step(&mut o, d, &before, &calls, &chain.current_state, "GibbsMarkovChain::step(after-fault)");
            before = chain.current_state.clone();
            o.work += 1;
        }
        o.hash = str_hash(&p.to_string());
        o.nontrivial = true;
        if ws {
            o.sample = Some(json!({"d": d, "failed_at_call_of_sweep": fc, "state_after_fault": before}));
        }
        o
    }
    fn shrink(&self, p: &Value) -> Vec<Value> {
        let mut out = vec![];
        shrink_int(p, "steps_before", 0, &mut out);
        shrink_int(p, "steps_after", 1, &mut out);
        shrink_int(p, "fail_call", 1, &mut out);
        let d = pu(p, "d");
        if d > 1 && pu(p, "fail_call") <= d - 1 {
            out.push(with(p, "d", json!(d - 1)));
        }
        out
    }
    fn rule(&self) -> &'static str {
        "fault = the user's conditional panics at call k of a sweep (every k in 1..d reachable), the panic is caught by the caller; afterwards the state must hold the new values of the coordinates refreshed before the failure and the old values elsewhere, and 1..4 further steps must be ordinary sweeps; distinct = parameter hash"
    }
    fn components(&self) -> Value {
        json!({"real": ["GibbsMarkovChain::step"], "stub": ["Conditional = recording stub with an injected failure"]})
    }
}
