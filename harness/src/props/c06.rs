//! C06 — long-run averages of every sampler converge to the target's expectations; the sampler's
//! own draws have the distributions the algorithms require and are mutually independent.
//!
//! Weakest fit for this technique family (no fault, no schedule: only the randomness seam, and a
//! statistical oracle). Two oracles: (1) draw-level tests on the traced / observed draws by role,
//! (2) end-to-end z-tests over K independent chains started from EXACT draws of the target (a
//! correct kernel is then stationary from step 0, so time averages are unbiased).

use super::*;
use crate::gtargets::*;
use crate::props::c03::parse_transitions;
use crate::zoo::BF64;
use burn::tensor::{Tensor, TensorData};
use mini_mcmc::core::{ChainRunner, MarkovChain};
use mini_mcmc::distributions::{Conditional, Gaussian2D, IsotropicGaussian, Proposal, Target};
use mini_mcmc::gibbs::GibbsMarkovChain;
use mini_mcmc::hmc::HMC;
use mini_mcmc::metropolis_hastings::MetropolisHastings;
use mini_mcmc::nuts::{NUTSChain, NUTS};
use ndarray::{arr1, arr2};
use rand::rngs::SmallRng;
use rand::{Rng, SeedableRng};
use std::sync::{Arc, Mutex};

pub fn def() -> PropertyDef {
    PropertyDef {
        id: "C06",
        level: "exploration",
        scenarios: vec![Box::new(EndToEnd), Box::new(ApiHistories)],
        assumptions: vec![
            "statistical oracle: alarm only at |z| > 7 (t with K-1 >= 47 degrees of freedom) and Kolmogorov-Smirnov distances beyond the 1e-10 critical value; at most a few hundred statistics per run, so a fresh seed alarms with probability < 1e-7 on a correct tree; with the default seed the verdict is a constant",
            "chains start from exact draws of the target (Cholesky / inverse CDF in the harness), so no burn-in bias enters the estimates; NUTS estimates use draws at least 30 transitions after the freeze",
        ],
    }
}

// ---- small statistics toolbox --------------------------------------------------------------------
fn mean_sd(v: &[f64]) -> (f64, f64) {
    let n = v.len() as f64;
    let m = v.iter().sum::<f64>() / n;
    let s = (v.iter().map(|x| (x - m) * (x - m)).sum::<f64>() / (n - 1.0).max(1.0)).sqrt();
    (m, s)
}
fn phi(x: f64) -> f64 {
    0.5 * erfc(-x / std::f64::consts::SQRT_2)
}
fn erfc(x: f64) -> f64 {
    // Numerical Recipes erfcc, relative error < 1.2e-7 everywhere
    let z = x.abs();
    let t = 1.0 / (1.0 + 0.5 * z);
    let r = t * (-z * z - 1.26551223 + t * (1.00002368 + t * (0.37409196 + t * (0.09678418 + t * (-0.18628806 + t * (0.27886807 + t * (-1.13520398 + t * (1.48851587 + t * (-0.82215223 + t * 0.17087277))))))))).exp();
    if x >= 0.0 {
        r
    } else {
        2.0 - r
    }
}
/// one-sample KS distance against a cdf
fn ks(mut v: Vec<f64>, cdf: impl Fn(f64) -> f64) -> f64 {
    v.sort_by(|a, b| a.partial_cmp(b).unwrap_or(std::cmp::Ordering::Equal));
    let n = v.len() as f64;
    let mut d = 0.0f64;
    for (i, x) in v.iter().enumerate() {
        let f = cdf(*x);
        d = d.max((f - i as f64 / n).abs()).max(((i + 1) as f64 / n - f).abs());
    }
    d
}
fn ks_crit(n: usize) -> f64 {
    // P(D > d) ~ 2 exp(-2 n d^2) = 1e-10  (plus the 1.2e-7 accuracy of the normal cdf used here)
    ((2.0e10f64).ln() / (2.0 * n as f64)).sqrt() + 1e-6
}
fn corr(a: &[f64], b: &[f64]) -> f64 {
    let n = a.len().min(b.len());
    let (ma, sa) = mean_sd(&a[..n]);
    let (mb, sb) = mean_sd(&b[..n]);
    if sa == 0.0 || sb == 0.0 {
        return 0.0;
    }
    a[..n].iter().zip(&b[..n]).map(|(x, y)| (x - ma) * (y - mb)).sum::<f64>() / ((n as f64 - 1.0) * sa * sb)
}

struct Stats<'a> {
    o: &'a mut Outcome,
    site: String,
    n_stats: u64,
    worst: f64,
}
impl<'a> Stats<'a> {
    /// z-test of per-chain averages against a known expectation
    fn z(&mut self, what: &str, per_chain: &[f64], expect: f64) {
        let (m, s) = mean_sd(per_chain);
        let k = per_chain.len() as f64;
        let se = (s / k.sqrt()).max(1e-12);
        let z = (m - expect) / se;
        self.n_stats += 1;
        self.worst = self.worst.max(z.abs());
        if !(z.abs() <= 7.0) {
            self.o.violate("moment_bias", &format!("{}:{}", self.site, what), format!("{}: estimate of E[{what}] over {} independent stationary chains is {m:.5} +- {se:.5}, the target's value is {expect:.5} (z = {z:.1})", self.site, per_chain.len()));
        }
    }
    fn dist(&mut self, what: &str, v: Vec<f64>, cdf: impl Fn(f64) -> f64, mean: f64, var: f64) {
        let n = v.len();
        if n < 2000 {
            return;
        }
        let (m, s) = mean_sd(&v);
        let zm = (m - mean) / (var.sqrt() / (n as f64).sqrt());
        self.n_stats += 2;
        let d = ks(v, cdf);
        if d > ks_crit(n) || !(zm.abs() <= 7.0) {
            self.o.violate("draw_distribution", &format!("{}:draws:{}", self.site, what), format!("{}: {n} draws in the role '{what}' do not follow the required distribution: KS distance {d:.5} (critical {:.5}), mean {m:.5} (z = {zm:.1}), sd {s:.5} (required {:.5})", self.site, ks_crit(n), var.sqrt()));
        }
    }
    fn indep(&mut self, what: &str, a: &[f64], b: &[f64]) {
        let n = a.len().min(b.len());
        if n < 2000 {
            return;
        }
        let r = corr(a, b);
        let z = r * (n as f64).sqrt();
        self.n_stats += 1;
        if !(z.abs() <= 7.0) {
            self.o.violate("draws_dependent", &format!("{}:dependence:{}", self.site, what), format!("{}: correlation {r:.4} between {what} over {n} pairs (z = {z:.1})", self.site));
        }
    }
}

fn chol2(c: [[f64; 2]; 2]) -> [[f64; 2]; 2] {
    let l00 = c[0][0].sqrt();
    let l10 = c[1][0] / l00;
    let l11 = (c[1][1] - l10 * l10).sqrt();
    [[l00, 0.0], [l10, l11]]
}

/// Cholesky of a covariance given the precision (row-major d x d): draws x = mu + L z
fn exact_gauss_draw(g: &mut Gen, t: &GTarget) -> Vec<f64> {
    let d = t.d;
    // invert the precision by Gauss-Jordan
    let mut a: Vec<Vec<f64>> = (0..d).map(|r| (0..2 * d).map(|c| if c < d { t.a[r * d + c] } else if c - d == r { 1.0 } else { 0.0 }).collect()).collect();
    for i in 0..d {
        let p = a[i][i];
        for c in 0..2 * d {
            a[i][c] /= p;
        }
        for r in 0..d {
            if r != i {
                let f = a[r][i];
                for c in 0..2 * d {
                    a[r][c] -= f * a[i][c];
                }
            }
        }
    }
    let cov: Vec<Vec<f64>> = (0..d).map(|r| (0..d).map(|c| a[r][d + c]).collect()).collect();
    let mut l = vec![vec![0.0; d]; d];
    for i in 0..d {
        for j in 0..=i {
            let s: f64 = (0..j).map(|k| l[i][k] * l[j][k]).sum();
            l[i][j] = if i == j { (cov[i][i] - s).sqrt() } else { (cov[i][j] - s) / l[j][j] };
        }
    }
    let z: Vec<f64> = (0..d).map(|_| g.normal()).collect();
    (0..d).map(|i| t.mu[i] + (0..=i).map(|k| l[i][k] * z[k]).sum::<f64>()).collect()
}
fn gauss_cov(t: &GTarget) -> Vec<Vec<f64>> {
    let d = t.d;
    let mut a: Vec<Vec<f64>> = (0..d).map(|r| (0..2 * d).map(|c| if c < d { t.a[r * d + c] } else if c - d == r { 1.0 } else { 0.0 }).collect()).collect();
    for i in 0..d {
        let p = a[i][i];
        for c in 0..2 * d {
            a[i][c] /= p;
        }
        for r in 0..d {
            if r != i {
                let f = a[r][i];
                for c in 0..2 * d {
                    a[r][c] -= f * a[i][c];
                }
            }
        }
    }
    (0..d).map(|r| (0..d).map(|c| a[r][d + c]).collect()).collect()
}

// ---- discrete target with an asymmetric walk ----------------------------------------------------
#[derive(Clone)]
struct Pmf {
    logp: Vec<f64>,
}
impl Target<i32, f64> for Pmf {
    fn unnorm_logp(&self, x: &[i32]) -> f64 {
        if x[0] < 0 || x[0] as usize >= self.logp.len() {
            f64::NEG_INFINITY
        } else {
            self.logp[x[0] as usize]
        }
    }
}
#[derive(Clone)]
struct Walk {
    p_up: f64,
    rng: SmallRng,
    last_up: bool,
    /// clamped at 0: a down move from 0 proposes 0 again (a candidate equal to the current state is a
    /// legal candidate, with its own proposal probability)
    clamp: bool,
}
impl Proposal<i32, f64> for Walk {
    fn sample(&mut self, c: &[i32]) -> Vec<i32> {
        let u: f64 = self.rng.random();
        self.last_up = u < self.p_up;
        vec![if self.last_up { c[0] + 1 } else if self.clamp && c[0] == 0 { 0 } else { c[0] - 1 }]
    }
    fn logp(&self, from: &[i32], to: &[i32]) -> f64 {
        if to[0] == from[0] + 1 {
            self.p_up.ln()
        } else if to[0] == from[0] - 1 || (self.clamp && from[0] == 0 && to[0] == 0) {
            (1.0 - self.p_up).ln()
        } else {
            f64::NEG_INFINITY
        }
    }
    fn set_seed(mut self, s: u64) -> Self {
        self.rng = SmallRng::seed_from_u64(s);
        self
    }
}

/// recording wrapper around the library's isotropic proposal: keeps the noise it added
#[derive(Clone)]
struct RecIso {
    inner: IsotropicGaussian<f64>,
    noise: Arc<Mutex<Vec<f64>>>,
}
impl Proposal<f64, f64> for RecIso {
    fn sample(&mut self, c: &[f64]) -> Vec<f64> {
        let y = self.inner.sample(c);
        self.noise.lock().unwrap().extend(y.iter().zip(c).map(|(a, b)| a - b));
        y
    }
    fn logp(&self, f: &[f64], t: &[f64]) -> f64 {
        self.inner.logp(f, t)
    }
    fn set_seed(mut self, s: u64) -> Self {
        self.inner = self.inner.set_seed(s);
        self
    }
}

/// Gibbs conditional of a bivariate Gaussian with correlation rho (own generator per chain)
#[derive(Clone)]
struct BiGauss {
    rho: f64,
    rng: SmallRng,
}
impl Conditional<f64> for BiGauss {
    fn sample(&mut self, i: usize, given: &[f64]) -> f64 {
        let u1: f64 = 1.0 - self.rng.random::<f64>();
        let u2: f64 = self.rng.random();
        let z = (-2.0 * u1.ln()).sqrt() * (2.0 * std::f64::consts::PI * u2).cos();
        self.rho * given[1 - i] + (1.0 - self.rho * self.rho).sqrt() * z
    }
}

struct EndToEnd;

const CONFIGS: &[&str] = &["mh_gauss", "mh_poisson_asym", "mh_table_asym", "gibbs_bigauss", "hmc_gauss", "hmc_gauss_many_leapfrogs", "nuts_gauss", "nuts_gauss_3d", "mh_gamma", "hmc_gamma"];

/// Gamma(k, 1) written the naive way, (k-1) ln x - x: NaN for x < 0, as user targets with a restricted
/// support often are; mean k, variance k
#[derive(Clone)]
struct NaiveGamma {
    k: f64,
}
impl Target<f64, f64> for NaiveGamma {
    fn unnorm_logp(&self, x: &[f64]) -> f64 {
        x.iter().map(|v| (self.k - 1.0) * v.ln() - v).sum()
    }
}

impl Scenario for EndToEnd {
    fn name(&self) -> &'static str {
        "stationary_chains"
    }
    fn runs(&self, tier: Tier) -> u64 {
        tier.pick(20, 320)
    }
    fn generate(&self, g: &mut Gen, tier: Tier, idx: u64) -> Value {
        json!({"config": CONFIGS[(idx % CONFIGS.len() as u64) as usize], "gseed": g.u64(), "seed": g.u64(), "k": tier.pick(64, 128), "t": tier.pick(300, 600)})
    }
    fn execute(&self, p: &Value, ws: bool) -> Outcome {
        let mut o = Outcome::default();
        let cfg = ps(p, "config").to_string();
        let mut g = Gen::new(pu(p, "gseed"));
        let k = pus(p, "k");
        let t_len = pus(p, "t");
        let seed = pu(p, "seed");
        o.hash = str_hash(&p.to_string());
        o.nontrivial = true;
        let mut info = json!({});
        let _ = mcmc_sim::sim::take_last_panic();
        let r = std::panic::catch_unwind(std::panic::AssertUnwindSafe(|| {
            let mut st = Stats { o: &mut o, site: format!("C06[{cfg}]"), n_stats: 0, worst: 0.0 };
            match cfg.as_str() {
                "mh_gauss" => {
                    let cov = [[g.f64_in(0.5, 3.0), 0.0], [0.0, g.f64_in(0.5, 3.0)]];
                    let rho = g.f64_in(-0.8, 0.8);
                    let c01 = rho * (cov[0][0] * cov[1][1]).sqrt();
                    let cov = [[cov[0][0], c01], [c01, cov[1][1]]];
                    let mean = [g.f64_in(-1.0, 1.0), g.f64_in(-1.0, 1.0)];
                    let l = chol2(cov);
                    let target = Gaussian2D { mean: arr1(&mean), cov: arr2(&cov) };
                    let std = g.f64_in(0.6, 1.6);
                    let noise = Arc::new(Mutex::new(vec![]));
                    let prop = RecIso { inner: IsotropicGaussian::new(std), noise: noise.clone() };
                    let kk = 4 * k;
                    let starts: Vec<Vec<f64>> = (0..kk)
                        .map(|_| {
                            let (z0, z1) = (g.normal(), g.normal());
                            vec![mean[0] + l[0][0] * z0, mean[1] + l[1][0] * z0 + l[1][1] * z1]
                        })
                        .collect();
                    let mut s = MetropolisHastings::new(target, prop, starts).seed(seed);
                    let (mut f0, mut f00, mut f01, mut f11) = (vec![], vec![], vec![], vec![]);
                    let mut us = vec![];
                    let mut nz = vec![];
                    for c in s.chains.iter_mut() {
                        let (mut a0, mut a00, mut a01, mut a11) = (0.0, 0.0, 0.0, 0.0);
                        for _ in 0..t_len {
                            let u: f64 = c.rng.clone().random();
                            us.push(u);
                            noise.lock().unwrap().clear();
                            let x = c.step().clone();
                            nz.push(noise.lock().unwrap()[0]);
                            a0 += x[0];
                            a00 += (x[0] - mean[0]).powi(2);
                            a01 += (x[0] - mean[0]) * (x[1] - mean[1]);
                            a11 += (x[1] - mean[1]).powi(2);
                        }
                        let n = t_len as f64;
                        f0.push(a0 / n);
                        f00.push(a00 / n);
                        f01.push(a01 / n);
                        f11.push(a11 / n);
                    }
                    st.o.work = (kk * t_len) as u64;
                    st.z("x0", &f0, mean[0]);
                    st.z("(x0-mu0)^2", &f00, cov[0][0]);
                    st.z("(x0-mu0)(x1-mu1)", &f01, cov[0][1]);
                    st.z("(x1-mu1)^2", &f11, cov[1][1]);
                    st.dist("MH acceptance uniform", us.clone(), |x| x.clamp(0.0, 1.0), 0.5, 1.0 / 12.0);
                    st.dist("MH proposal noise / std", nz.iter().map(|x| x / std).collect(), phi, 0.0, 1.0);
                    st.indep("acceptance uniform vs proposal noise of the same step", &us, &nz);
                    st.indep("acceptance uniform vs the next one (lag 1)", &us[..us.len() - 1], &us[1..]);
                    // across chains: chain c vs chain c+1 at equal step indices
                    st.indep("acceptance uniforms of neighbouring chains", &us[..us.len() - t_len], &us[t_len..]);
                    st.indep("proposal noise of neighbouring chains", &nz[..nz.len() - t_len], &nz[t_len..]);
                    info = json!({"cov": cov, "mean": mean, "proposal_std": std, "chains": kk, "steps": t_len});
                }
                "mh_poisson_asym" | "mh_table_asym" => {
                    let (pmf, name): (Vec<f64>, &str) = if cfg == "mh_poisson_asym" {
                        let lam = g.f64_in(0.7, 6.0);
                        let mut v = vec![];
                        let mut lf = 0.0;
                        for i in 0..60 {
                            if i > 0 {
                                lf += (i as f64).ln();
                            }
                            v.push((i as f64 * lam.ln() - lam - lf).exp());
                        }
                        (v, "poisson")
                    } else {
                        ((0..g.usize(5, 12)).map(|_| if g.bool(1, 6) { 0.0 } else { g.log_uniform(0.02, 1.0) }).collect(), "table")
                    };
                    let z: f64 = pmf.iter().sum();
                    let pmf: Vec<f64> = pmf.iter().map(|x| x / z).collect();
                    let target = Pmf { logp: pmf.iter().map(|x| x.ln()).collect() };
                    let p_up = g.f64_in(0.3, 0.75);
                    let clamp = g.bool(1, 2);
                    let kk = 4 * k;
                    let draw = |g: &mut Gen| -> i32 {
                        let u = g.f64();
                        let mut c = 0.0;
                        for (i, q) in pmf.iter().enumerate() {
                            c += q;
                            if u < c {
                                return i as i32;
                            }
                        }
                        pmf.iter().rposition(|q| *q > 0.0).unwrap() as i32
                    };
                    let starts: Vec<Vec<i32>> = (0..kk).map(|_| vec![draw(&mut g)]).collect();
                    // boundary seeds too: seeds whose derived chain seeds are 0, 2^62, 2^63, ... (a proposal that
                    // consumes one generator word per step shows any coupling with the acceptance stream at once)
                    let seed = match seed % 4 {
                        0 => u64::MAX - (seed >> 8) % 3,
                        1 => (1u64 << 63) - 1 - (seed >> 8) % 3,
                        2 => (1u64 << 62) - 1,
                        _ => seed,
                    };
                    let mut s = MetropolisHastings::new(target, Walk { p_up, rng: SmallRng::seed_from_u64(1), last_up: false, clamp }, starts).seed(seed);
                    let ex: f64 = pmf.iter().enumerate().map(|(i, q)| i as f64 * q).sum();
                    let ex2: f64 = pmf.iter().enumerate().map(|(i, q)| (i * i) as f64 * q).sum();
                    // a tail cell: smallest q with P(X >= q) <= 0.1 (and > 0)
                    let mut tail = pmf.len() - 1;
                    let mut acc = 0.0;
                    for i in (0..pmf.len()).rev() {
                        if acc + pmf[i] > 0.1 {
                            break;
                        }
                        acc += pmf[i];
                        tail = i;
                    }
                    let ptail: f64 = pmf[tail..].iter().sum();
                    let cells: Vec<usize> = (0..pmf.len()).filter(|i| pmf[*i] > 0.03).take(6).collect();
                    let (mut f1, mut f2, mut ft) = (vec![], vec![], vec![]);
                    let mut fc: Vec<Vec<f64>> = vec![vec![]; cells.len()];
                    let mut worst_pair = (0.0f64, 0usize);
                    for (ci, c) in s.chains.iter_mut().enumerate() {
                        let (mut a1, mut a2, mut at) = (0.0, 0.0, 0.0);
                        let mut ac = vec![0.0; cells.len()];
                        let (mut us, mut ups) = (vec![], vec![]);
                        for _ in 0..t_len {
                            us.push(c.rng.clone().random::<f64>());
                            let x = c.step()[0];
                            ups.push(c.proposal.last_up as u8 as f64);
                            a1 += x as f64;
                            a2 += (x as f64).powi(2);
                            at += (x as usize >= tail) as u8 as f64;
                            for (j, cell) in cells.iter().enumerate() {
                                ac[j] += (x as usize == *cell) as u8 as f64;
                            }
                        }
                        // within every single chain: the acceptance uniform must be independent of the
                        // direction the proposal took in the same step
                        let zc = corr(&us, &ups) * (t_len as f64).sqrt();
                        if zc.abs() > worst_pair.0 {
                            worst_pair = (zc.abs(), ci);
                        }
                        let n = t_len as f64;
                        f1.push(a1 / n);
                        f2.push(a2 / n);
                        ft.push(at / n);
                        for j in 0..cells.len() {
                            fc[j].push(ac[j] / n);
                        }
                    }
                    st.o.work = (kk * t_len) as u64;
                    st.n_stats += kk as u64;
                    if worst_pair.0 > 8.0 {
                        st.o.violate("draws_dependent", &format!("{}:dependence:acceptance-uniform-vs-proposal-direction", st.site), format!("{}: in chain {} (sampler seed {seed}) the acceptance uniform and the direction proposed in the same step are correlated: z = {:.1} over {t_len} steps", st.site, worst_pair.1, worst_pair.0));
                    }
                    st.z("k", &f1, ex);
                    st.z("k^2", &f2, ex2);
                    if ptail > 0.0 {
                        st.z("1[k >= tail]", &ft, ptail);
                    }
                    for (j, cell) in cells.iter().enumerate() {
                        st.z(&format!("1[k = {cell}]"), &fc[j], pmf[*cell]);
                    }
                    info = json!({"family": name, "p_up": p_up, "E_k": ex, "chains": kk});
                }
                "gibbs_bigauss" => {
                    let rho = g.f64_in(-0.9, 0.9);
                    let kk = 4 * k;
                    let (mut f0, mut f00, mut f01) = (vec![], vec![], vec![]);
                    for c in 0..kk {
                        let z0 = g.normal();
                        let z1 = g.normal();
                        let start = [z0, rho * z0 + (1.0 - rho * rho).sqrt() * z1];
                        let mut ch = GibbsMarkovChain::new(BiGauss { rho, rng: SmallRng::seed_from_u64(mix(seed, c as u64)) }, &start);
                        let (mut a0, mut a00, mut a01) = (0.0, 0.0, 0.0);
                        for _ in 0..t_len {
                            let x = ch.step().clone();
                            a0 += x[0];
                            a00 += x[0] * x[0];
                            a01 += x[0] * x[1];
                        }
                        let n = t_len as f64;
                        f0.push(a0 / n);
                        f00.push(a00 / n);
                        f01.push(a01 / n);
                    }
                    st.o.work = (kk * t_len) as u64;
                    st.z("x0", &f0, 0.0);
                    st.z("x0^2", &f00, 1.0);
                    st.z("x0 x1", &f01, rho);
                    info = json!({"rho": rho, "chains": kk});
                }
                // restricted support with NaN outside: candidates / trajectories that leave it must be refused, or
                // the chain escapes and the averages go with it
                "mh_gamma" | "hmc_gamma" => {
                    let kshape = g.usize(2, 5) as f64;
                    let kk = 4 * k;
                    let draw = |g: &mut Gen| -> f64 { (0..kshape as usize).map(|_| -(1.0 - g.f64()).ln()).sum() };
                    let (mut f1, mut f2) = (vec![], vec![]);
                    if cfg == "mh_gamma" {
                        let starts: Vec<Vec<f64>> = (0..kk).map(|_| vec![draw(&mut g)]).collect();
                        let std = g.f64_in(0.8, 2.5);
                        let mut s = MetropolisHastings::new(NaiveGamma { k: kshape }, IsotropicGaussian::<f64>::new(std), starts).seed(seed);
                        for c in s.chains.iter_mut() {
                            let (mut a1, mut a2) = (0.0, 0.0);
                            for _ in 0..t_len {
                                let x = c.step()[0];
                                a1 += x;
                                a2 += (x - kshape).powi(2);
                            }
                            f1.push(a1 / t_len as f64);
                            f2.push(a2 / t_len as f64);
                        }
                        st.o.work = (kk * t_len) as u64;
                        info = json!({"shape": kshape, "proposal_std": std, "chains": kk});
                    } else {
                        let mut t = GTarget::new(GKind::HalfLineLog, 1);
                        t.c = 0.0;
                        // HalfLineLog is ln x - x = Gamma(2, 1)
                        let kshape = 2.0;
                        let draw2 = |g: &mut Gen| -> f64 { -(1.0 - g.f64()).ln() - (1.0 - g.f64()).ln() };
                        let starts: Vec<Vec<f64>> = (0..kk).map(|_| vec![draw2(&mut g)]).collect();
                        let (eps, l) = (g.f64_in(0.2, 0.6), g.usize(2, 5));
                        let mut h = HMC::<f64, BF64, GTarget>::new(t, starts, eps, l).set_seed(seed);
                        let mut a1 = vec![0.0; kk];
                        let mut a2 = vec![0.0; kk];
                        for _ in 0..t_len {
                            h.step();
                            let x = h.positions.to_data().convert::<f64>().to_vec::<f64>().unwrap();
                            for c in 0..kk {
                                a1[c] += x[c];
                                a2[c] += (x[c] - kshape).powi(2);
                            }
                        }
                        f1 = a1.iter().map(|v| v / t_len as f64).collect();
                        f2 = a2.iter().map(|v| v / t_len as f64).collect();
                        st.o.work = (kk * t_len) as u64;
                        st.z("x", &f1, kshape);
                        st.z("(x-k)^2", &f2, kshape);
                        info = json!({"shape": kshape, "eps": eps, "L": l, "rows": kk});
                        return (st.n_stats, st.worst);
                    }
                    st.z("x", &f1, kshape);
                    st.z("(x-k)^2", &f2, kshape);
                }
                "hmc_gauss" | "hmc_gauss_many_leapfrogs" => {
                    let d = g.usize(2, 4);
                    let target = GTarget::gauss(&mut g, d, 9.0);
                    let cov = gauss_cov(&target);
                    let smin = (0..d).map(|i| cov[i][i].sqrt()).fold(f64::MAX, f64::min);
                    // step sizes well inside the stable range (< 2 sigma_min) but large enough for a substantial
                    // rejection rate, so that steps after rejections matter
                    let (eps, l) = if cfg == "hmc_gauss" { (g.f64_in(0.9, 1.4) * smin, g.usize(2, 5)) } else { (g.f64_in(0.5, 0.9) * smin, g.usize(8, 14)) };
                    let kk = 4 * k;
                    let starts: Vec<Vec<f64>> = (0..kk).map(|_| exact_gauss_draw(&mut g, &target)).collect();
                    let mut h = HMC::<f64, BF64, GTarget>::new(target.clone(), starts, eps, l).set_seed(seed);
                    let tt = t_len * 2;
                    let mut acc1 = vec![vec![0.0; d]; kk];
                    let mut acc2 = vec![vec![0.0; d * d]; kk];
                    let (mut moms, mut us, mut moves) = (vec![], vec![], 0u64);
                    for _ in 0..tt {
                        mcmc_sim::trace::start();
                        h.step();
                        let ev = mcmc_sim::trace::stop();
                        for e in &ev {
                            match e.role {
                                "hmc_momentum" => moms.extend(e.vals.iter().cloned()),
                                "hmc_u" => us.extend(e.vals.iter().cloned()),
                                "hmc_accept" => moves += e.vals.iter().filter(|v| **v != 0.0).count() as u64,
                                _ => {}
                            }
                        }
                        let x = h.positions.to_data().convert::<f64>().to_vec::<f64>().unwrap();
                        for c in 0..kk {
                            for i in 0..d {
                                acc1[c][i] += x[c * d + i];
                                for j in 0..d {
                                    acc2[c][i * d + j] += (x[c * d + i] - target.mu[i]) * (x[c * d + j] - target.mu[j]);
                                }
                            }
                        }
                    }
                    st.o.work = (kk * tt) as u64;
                    let n = tt as f64;
                    for i in 0..d {
                        st.z(&format!("x{i}"), &acc1.iter().map(|a| a[i] / n).collect::<Vec<_>>(), target.mu[i]);
                        for j in i..d {
                            st.z(&format!("(x{i}-mu)(x{j}-mu)"), &acc2.iter().map(|a| a[i * d + j] / n).collect::<Vec<_>>(), cov[i][j]);
                        }
                    }
                    st.dist("HMC momentum", moms.clone(), phi, 0.0, 1.0);
                    st.dist("HMC acceptance uniform", us.clone(), |x| x.clamp(0.0, 1.0), 0.5, 1.0 / 12.0);
                    st.indep("momentum vs the next momentum (lag 1)", &moms[..moms.len() - 1], &moms[1..]);
                    let m0: Vec<f64> = moms.chunks(d).map(|r| r[0]).collect();
                    st.indep("acceptance uniform vs first momentum coordinate of the same row", &us, &m0);
                    info = json!({"d": d, "eps": eps, "L": l, "rows": kk, "steps": tt, "acceptance_rate": moves as f64 / (kk * tt) as f64});
                }
                _ => {
                    let d = if cfg == "nuts_gauss" { 2 } else { 3 };
                    let target = GTarget::gauss(&mut g, d, 6.0);
                    let cov = gauss_cov(&target);
                    let kk = k.min(48).max(48);
                    let starts: Vec<Vec<f64>> = (0..kk).map(|_| exact_gauss_draw(&mut g, &target)).collect();
                    let mut s = NUTS::<f64, BF64, GTarget>::new(target.clone(), starts, 0.8).set_seed(seed);
                    let (warm, keep) = (120usize, t_len / 2);
                    // the chains are run one after the other on this thread (C07 establishes that NUTS::run
                    // returns exactly this), so that the per-thread trace sink sees every draw
                    mcmc_sim::trace::start();
                    let mut x: Vec<f64> = vec![];
                    for ch in s.verif_chains_mut().iter_mut() {
                        x.extend(ch.run(keep, warm).to_data().convert::<f64>().to_vec::<f64>().unwrap());
                    }
                    let ev = mcmc_sim::trace::stop();
                    let skip = 30.min(keep / 3);
                    let mut acc1 = vec![vec![0.0; d]; kk];
                    let mut acc2 = vec![vec![0.0; d * d]; kk];
                    for c in 0..kk {
                        for t in skip..keep {
                            for i in 0..d {
                                let xi = x[(c * keep + t) * d + i];
                                acc1[c][i] += xi;
                                for j in 0..d {
                                    acc2[c][i * d + j] += (xi - target.mu[i]) * (x[(c * keep + t) * d + j] - target.mu[j]);
                                }
                            }
                        }
                    }
                    st.o.work = (kk * (warm + keep)) as u64;
                    let n = (keep - skip) as f64;
                    for i in 0..d {
                        st.z(&format!("x{i}"), &acc1.iter().map(|a| a[i] / n).collect::<Vec<_>>(), target.mu[i]);
                        for j in i..d {
                            st.z(&format!("(x{i}-mu)(x{j}-mu)"), &acc2.iter().map(|a| a[i * d + j] / n).collect::<Vec<_>>(), cov[i][j]);
                        }
                    }
                    let trs = parse_transitions(&ev);
                    let moms: Vec<f64> = trs.iter().flat_map(|t| t.mom.iter().cloned()).collect();
                    let exps: Vec<f64> = trs.iter().map(|t| t.exp1).collect();
                    let dirs: Vec<f64> = trs.iter().flat_map(|t| t.dirs.iter().map(|v| *v as f64)).collect();
                    let accs: Vec<f64> = trs.iter().flat_map(|t| t.accept.iter().map(|a| a.0)).collect();
                    let merges: Vec<f64> = trs.iter().flat_map(|t| t.merge_us.iter().cloned()).collect();
                    st.dist("NUTS momentum", moms.clone(), phi, 0.0, 1.0);
                    st.dist("NUTS slice Exp(1) draw", exps.clone(), |x| 1.0 - (-x.max(0.0)).exp(), 1.0, 1.0);
                    st.dist("NUTS accept uniform", accs, |x| x.clamp(0.0, 1.0), 0.5, 1.0 / 12.0);
                    st.dist("NUTS merge uniform", merges, |x| x.clamp(0.0, 1.0), 0.5, 1.0 / 12.0);
                    if dirs.len() >= 2000 {
                        let (m, _) = mean_sd(&dirs);
                        let z = m * (dirs.len() as f64).sqrt();
                        st.n_stats += 1;
                        if !(z.abs() <= 7.0) {
                            st.o.violate("draw_distribution", &format!("{}:draws:direction", st.site), format!("{} tree directions have mean {m:.4} (z = {z:.1}): not a fair coin", dirs.len()));
                        }
                    }
                    if moms.len() > 2000 {
                        st.indep("momentum vs the next momentum (lag 1)", &moms[..moms.len() - 1], &moms[1..]);
                        let m0: Vec<f64> = trs.iter().map(|t| t.mom[0]).collect();
                        st.indep("slice draw vs first momentum coordinate", &exps, &m0);
                    }
                    info = json!({"d": d, "chains": kk, "warm_up": warm, "kept": keep, "transitions_traced_on_this_thread": trs.len()});
                }
            }
            (st.n_stats, st.worst)
        }));
        match r {
            Err(_) => {
                let m = mcmc_sim::sim::take_last_panic().unwrap_or_default();
                o.violate("panic", &format!("C06[{cfg}]:panic"), m);
            }
            Ok((n_stats, worst)) => {
                o.count("statistics_evaluated", n_stats);
                o.count(&format!("probe_config_{cfg}"), 1);
                if ws {
                    o.sample = Some(json!({"config": cfg, "setup": info, "statistics": n_stats, "largest_abs_z": worst}));
                }
            }
        }
        o
    }
    fn rule(&self) -> &'static str {
        "one run = one sampler configuration (8 kinds visited in turn: MH on a correlated Gaussian with the library proposal, MH on Poisson / table targets with an asymmetric walk, Gibbs on a correlated bivariate Gaussian, HMC batches short/long trajectories, NUTS in 2 and 3 dimensions) with K >= 48 independent chains started from exact draws of the target; per-chain time averages of means, second moments, cross moments, tail / pmf cells z-tested against closed-form values, plus KS / moment / correlation tests of the draws by role; distinct = parameter hash"
    }
    fn components(&self) -> Value {
        json!({"real": ["all four samplers", "IsotropicGaussian", "burn autodiff", "NUTSChain::run per chain"], "stub": ["targets with closed-form moments", "exact starting draws", "statistics"]})
    }
}

// ---- the same expectations along API histories: restarts from caller-assigned states, batched runs ----
struct ApiHistories;

const HISTORIES: &[&str] = &["nuts_restart", "hmc_restart", "mh_restart", "gibbs_restart", "hmc_batched", "nuts_batched", "mh_batched"];

/// z-tests of first and second moments of iid replicates (rows of `x`, d columns) against a Gaussian target
fn moment_tests(st: &mut Stats, x: &[Vec<f64>], mu: &[f64], cov: &[Vec<f64>]) {
    let d = mu.len();
    for i in 0..d {
        st.z(&format!("x{i}"), &x.iter().map(|r| r[i]).collect::<Vec<_>>(), mu[i]);
        for j in i..d {
            st.z(&format!("(x{i}-mu)(x{j}-mu)"), &x.iter().map(|r| (r[i] - mu[i]) * (r[j] - mu[j])).collect::<Vec<_>>(), cov[i][j]);
        }
        // a tail probability: P(x_i > mu_i + 1.5 sd_i)
        let cut = mu[i] + 1.5 * cov[i][i].sqrt();
        st.z(&format!("1[x{i} > mu + 1.5 sd]"), &x.iter().map(|r| (r[i] > cut) as u8 as f64).collect::<Vec<_>>(), 1.0 - phi(1.5));
    }
}

impl Scenario for ApiHistories {
    fn name(&self) -> &'static str {
        "api_histories"
    }
    fn runs(&self, tier: Tier) -> u64 {
        tier.pick(14, 140)
    }
    fn generate(&self, g: &mut Gen, tier: Tier, idx: u64) -> Value {
        json!({"config": HISTORIES[(idx % HISTORIES.len() as u64) as usize], "gseed": g.u64(), "seed": crate::props::c07::special_seed(g, 4).to_string(), "reps": tier.pick(12_000, 24_000), "steps": g.usize(1, 2)})
    }
    fn execute(&self, p: &Value, ws: bool) -> Outcome {
        let mut o = Outcome::default();
        let cfg = ps(p, "config").to_string();
        let mut g = Gen::new(pu(p, "gseed"));
        let reps = pus(p, "reps");
        let steps = pus(p, "steps");
        let seed = pu(p, "seed");
        o.hash = str_hash(&p.to_string());
        o.nontrivial = true;
        let mut info = json!({});
        let _ = mcmc_sim::sim::take_last_panic();
        let r = std::panic::catch_unwind(std::panic::AssertUnwindSafe(|| {
            let mut st = Stats { o: &mut o, site: format!("C06[{cfg}]"), n_stats: 0, worst: 0.0 };
            let dev = <BF64 as burn::tensor::backend::Backend>::Device::default();
            match cfg.as_str() {
                // One adapted chain; again and again the caller assigns an exact draw of the target to the
                // public `position` field and takes `steps` transitions: the result is an exact draw again.
                "nuts_restart" => {
                    let d = g.usize(2, 3);
                    let target = GTarget::gauss(&mut g, d, 6.0);
                    let cov = gauss_cov(&target);
                    let mut chain = NUTSChain::<f64, BF64, GTarget>::new(target.clone(), exact_gauss_draw(&mut g, &target), 0.8).set_seed(seed);
                    let _ = chain.run(1, 150);
                    let n = reps;
                    let mut xs = Vec::with_capacity(n);
                    for _ in 0..n {
                        let x0 = exact_gauss_draw(&mut g, &target);
                        chain.position = Tensor::<BF64, 1>::from_data(TensorData::new(x0, [d]), &dev);
                        for _ in 0..steps {
                            chain.step();
                        }
                        xs.push(chain.position.to_data().convert::<f64>().to_vec::<f64>().unwrap());
                    }
                    st.o.work = (n * steps) as u64;
                    moment_tests(&mut st, &xs, &target.mu, &cov);
                    info = json!({"d": d, "replicates": n, "steps_per_replicate": steps});
                }
                // The whole batch of positions is re-assigned with exact draws, then `steps` HMC steps follow.
                "hmc_restart" => {
                    let d = g.usize(2, 4);
                    let target = GTarget::gauss(&mut g, d, 9.0);
                    let cov = gauss_cov(&target);
                    let smin = (0..d).map(|i| cov[i][i].sqrt()).fold(f64::MAX, f64::min);
                    let (eps, l) = (g.f64_in(0.9, 1.4) * smin, g.usize(2, 5));
                    let rows = 500usize;
                    let starts: Vec<Vec<f64>> = (0..rows).map(|_| exact_gauss_draw(&mut g, &target)).collect();
                    let mut h = HMC::<f64, BF64, GTarget>::new(target.clone(), starts, eps, l).set_seed(seed);
                    let _ = h.run(2, 1);
                    let rounds = reps / rows;
                    let mut xs = Vec::with_capacity(rounds * rows);
                    for _ in 0..rounds {
                        let flat: Vec<f64> = (0..rows).flat_map(|_| exact_gauss_draw(&mut g, &target)).collect();
                        h.positions = Tensor::<BF64, 2>::from_data(TensorData::new(flat, [rows, d]), &dev);
                        for _ in 0..steps {
                            h.step();
                        }
                        let x = h.positions.to_data().convert::<f64>().to_vec::<f64>().unwrap();
                        xs.extend(x.chunks(d).map(|r| r.to_vec()));
                    }
                    st.o.work = (rounds * rows * steps) as u64;
                    moment_tests(&mut st, &xs, &target.mu, &cov);
                    info = json!({"d": d, "eps": eps, "L": l, "replicates": xs.len(), "steps_per_replicate": steps});
                }
                "mh_restart" => {
                    let target = GTarget::gauss(&mut g, 2, 9.0);
                    let covv = gauss_cov(&target);
                    let lib_t = Gaussian2D { mean: arr1(&[target.mu[0], target.mu[1]]), cov: arr2(&[[covv[0][0], covv[0][1]], [covv[1][0], covv[1][1]]]) };
                    let std = g.f64_in(0.6, 1.6);
                    let mut s = MetropolisHastings::new(lib_t, IsotropicGaussian::<f64>::new(std), vec![exact_gauss_draw(&mut g, &target); 2]).seed(seed);
                    let _ = s.run(3, 2);
                    let n = reps * 4;
                    let mut xs = Vec::with_capacity(n);
                    for k in 0..n {
                        let c = &mut s.chains[k % 2];
                        c.current_state = exact_gauss_draw(&mut g, &target);
                        for _ in 0..steps {
                            c.step();
                        }
                        xs.push(c.current_state.clone());
                    }
                    st.o.work = (n * steps) as u64;
                    moment_tests(&mut st, &xs, &target.mu, &covv);
                    info = json!({"proposal_std": std, "replicates": n, "steps_per_replicate": steps});
                }
                "gibbs_restart" => {
                    let rho = g.f64_in(-0.9, 0.9);
                    let mut ch = GibbsMarkovChain::new(BiGauss { rho, rng: SmallRng::seed_from_u64(seed) }, &[0.0, 0.0]);
                    let n = reps * 4;
                    let mut xs = Vec::with_capacity(n);
                    for _ in 0..n {
                        let (z0, z1) = (g.normal(), g.normal());
                        ch.current_state = vec![z0, rho * z0 + (1.0 - rho * rho).sqrt() * z1];
                        for _ in 0..steps {
                            ch.step();
                        }
                        xs.push(ch.current_state.clone());
                    }
                    st.o.work = (n * steps) as u64;
                    moment_tests(&mut st, &xs, &[0.0, 0.0], &[vec![1.0, rho], vec![rho, 1.0]]);
                    info = json!({"rho": rho, "replicates": n, "steps_per_replicate": steps});
                }
                // A seeded sampler used in many short `run` calls (sampling in batches after a separate
                // warm-up call): the pooled per-chain averages are those of one long stationary run.
                "hmc_batched" | "nuts_batched" | "mh_batched" => {
                    let d = if cfg == "mh_batched" { 2 } else { g.usize(2, 3) };
                    let target = GTarget::gauss(&mut g, d, 6.0);
                    let cov = gauss_cov(&target);
                    // many rows: a stream that restarts with every call leaves each row on its own short cycle, which
                    // shows in the spread of second moments across rows, not in any single row
                    let kk = match cfg.as_str() {
                        "nuts_batched" => 160,
                        "hmc_batched" => 2048,
                        _ => 512,
                    };
                    let starts: Vec<Vec<f64>> = (0..kk).map(|_| exact_gauss_draw(&mut g, &target)).collect();
                    let (batches, per) = (g.usize(40, 80), g.usize(2, 12));
                    let mut acc1 = vec![vec![0.0; d]; kk];
                    let mut acc2 = vec![vec![0.0; d * d]; kk];
                    let mut count = 0usize;
                    let add = |c: usize, row: &[f64], acc1: &mut Vec<Vec<f64>>, acc2: &mut Vec<Vec<f64>>| {
                        for i in 0..d {
                            acc1[c][i] += row[i];
                            for j in 0..d {
                                acc2[c][i * d + j] += (row[i] - target.mu[i]) * (row[j] - target.mu[j]);
                            }
                        }
                    };
                    match cfg.as_str() {
                        "hmc_batched" => {
                            let smin = (0..d).map(|i| cov[i][i].sqrt()).fold(f64::MAX, f64::min);
                            // half of the runs mix weakly within one call (short trajectories, few steps per call):
                            // whatever one call inherits from the previous one then dominates the pooled moments
                            let weak = g.bool(1, 2);
                            let (eps, l) = if weak { (g.f64_in(0.15, 0.5) * smin, g.usize(1, 3)) } else { (g.f64_in(0.7, 1.2) * smin, g.usize(2, 6)) };
                            let per = if weak { g.usize(1, 4) } else { per };
                            let mut h = HMC::<f64, BF64, GTarget>::new(target.clone(), starts, eps, l).set_seed(seed);
                            let _ = h.run(1, 20);
                            let mut first_moms: Vec<Vec<f64>> = vec![];
                            for _ in 0..batches {
                                mcmc_sim::trace::start();
                                let t = h.run(per, 0);
                                let ev = mcmc_sim::trace::stop();
                                if let Some(m) = ev.iter().find(|e| e.role == "hmc_momentum") {
                                    first_moms.push(m.vals.iter().take(256 * d).cloned().collect());
                                }
                                let dims = t.dims();
                                let v = t.to_data().convert::<f64>().to_vec::<f64>().unwrap();
                                // [n_collect, n_chains, d] or [n_chains, n_collect, d]: pooled per chain either way
                                let chains_first = dims[0] == kk && dims[1] == per;
                                for a in 0..dims[0] {
                                    for b in 0..dims[1] {
                                        let c = if chains_first { a } else { b };
                                        add(c, &v[(a * dims[1] + b) * d..(a * dims[1] + b + 1) * d], &mut acc1, &mut acc2);
                                    }
                                }
                                count += per;
                            }
                            // the momenta one call starts with are independent of those the previous call started with
                            let a: Vec<f64> = first_moms[..first_moms.len() - 1].iter().flatten().cloned().collect();
                            let b: Vec<f64> = first_moms[1..].iter().flatten().cloned().collect();
                            st.indep("first momenta of consecutive run calls", &a, &b);
                            info = json!({"d": d, "eps": eps, "L": l, "rows": kk, "batches": batches, "per_batch": per, "weak_mixing_per_call": weak});
                        }
                        "nuts_batched" => {
                            let mut s = NUTS::<f64, BF64, GTarget>::new(target.clone(), starts, 0.8).set_seed(seed);
                            let mut nuts_first: Vec<(usize, Vec<f64>)> = vec![];
                            for (c, ch) in s.verif_chains_mut().iter_mut().enumerate() {
                                let _ = ch.run(1, 120);
                                for _ in 0..batches / 2 {
                                    mcmc_sim::trace::start();
                                    let out = ch.run(per, 0);
                                    let ev = mcmc_sim::trace::stop();
                                    if let Some(m) = ev.iter().find(|e| e.role == "nuts_init_mom").or_else(|| ev.iter().find(|e| e.role == "nuts_mom")) {
                                        nuts_first.push((c, m.vals.clone()));
                                    }
                                    let v = out.to_data().convert::<f64>().to_vec::<f64>().unwrap();
                                    for row in v.chunks(d) {
                                        add(c, row, &mut acc1, &mut acc2);
                                    }
                                }
                            }
                            count = (batches / 2) * per;
                            let (mut a, mut b) = (vec![], vec![]);
                            for w in nuts_first.windows(2) {
                                if w[0].0 == w[1].0 && w[0].1.len() == w[1].1.len() {
                                    a.extend(w[0].1.iter().cloned());
                                    b.extend(w[1].1.iter().cloned());
                                }
                            }
                            st.indep("first momenta of consecutive run calls", &a, &b);
                            info = json!({"d": d, "chains": kk, "batches": batches / 2, "per_batch": per, "momentum_pairs": a.len()});
                        }
                        _ => {
                            let lib_t = Gaussian2D { mean: arr1(&[target.mu[0], target.mu[1]]), cov: arr2(&[[cov[0][0], cov[0][1]], [cov[1][0], cov[1][1]]]) };
                            let std = g.f64_in(0.6, 1.6);
                            let mut s = MetropolisHastings::new(lib_t, IsotropicGaussian::<f64>::new(std), starts).seed(seed);
                            let _ = s.run(1, 5);
                            let mut peeks: Vec<Vec<f64>> = vec![];
                            for _ in 0..batches {
                                peeks.push(s.chains.iter().map(|c| c.rng.clone().random::<f64>()).collect());
                                let a = s.run(per * 4, 0).expect("run");
                                for c in 0..kk {
                                    for t in 0..per * 4 {
                                        add(c, &[a[[c, t, 0]], a[[c, t, 1]]], &mut acc1, &mut acc2);
                                    }
                                }
                                count += per * 4;
                            }
                            let a: Vec<f64> = peeks[..peeks.len() - 1].iter().flatten().cloned().collect();
                            let b: Vec<f64> = peeks[1..].iter().flatten().cloned().collect();
                            st.indep("first acceptance uniforms of consecutive run calls", &a, &b);
                            info = json!({"proposal_std": std, "chains": kk, "batches": batches, "per_batch": per * 4});
                        }
                    }
                    st.o.work = (kk * count) as u64;
                    let n = count as f64;
                    for i in 0..d {
                        st.z(&format!("x{i}"), &acc1.iter().map(|a| a[i] / n).collect::<Vec<_>>(), target.mu[i]);
                        for j in i..d {
                            st.z(&format!("(x{i}-mu)(x{j}-mu)"), &acc2.iter().map(|a| a[i * d + j] / n).collect::<Vec<_>>(), cov[i][j]);
                        }
                    }
                }
                other => panic!("HARNESS-ERROR: unknown history {other}"),
            }
            (st.n_stats, st.worst)
        }));
        match r {
            Err(_) => {
                let m = mcmc_sim::sim::take_last_panic().unwrap_or_default();
                if m.contains("HARNESS-ERROR") {
                    o.harness_error = Some(m);
                } else {
                    o.violate("panic", &format!("C06[{cfg}]:panic"), m);
                }
            }
            Ok((n_stats, worst)) => {
                o.count("statistics_evaluated", n_stats);
                o.count(&format!("probe_history_{cfg}"), 1);
                if let Ok(f) = std::env::var("VERIF_DEBUG_Z") {
                    use std::io::Write;
                    if let Ok(mut fh) = std::fs::OpenOptions::new().create(true).append(true).open(f) {
                        let _ = writeln!(fh, "{cfg} worst |z| = {worst:.2} info = {info}");
                    }
                }
                if ws {
                    o.sample = Some(json!({"config": cfg, "setup": info, "statistics": n_stats, "largest_abs_z": worst}));
                }
            }
        }
        o
    }
    fn rule(&self) -> &'static str {
        "one run = one API history (7 kinds visited in turn): restarts — the caller assigns an exact draw of the target to the public state (NUTSChain::position, HMC::positions, MHMarkovChain::current_state, GibbsMarkovChain::current_state) of a sampler that has already run, takes 1..2 steps, and the result must again be distributed as the target (>= 12000 iid replicates, z-tests of means, second moments, tail probabilities); batched runs — a seeded sampler (special seeds too) is used in 40..80 short run(n, 0) calls after a separate warm-up call, pooled per-chain averages z-tested; distinct = parameter hash"
    }
    fn components(&self) -> Value {
        json!({"real": ["NUTSChain::run/step", "HMC::run/step", "MetropolisHastings::run, MHMarkovChain::step", "GibbsMarkovChain::step", "burn autodiff"], "stub": ["Gaussian targets with closed-form moments", "exact draws", "statistics"]})
    }
}
