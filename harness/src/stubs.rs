//! Stub parties shared by several scenarios: counting chains and samplers.

use mini_mcmc::core::{HasChains, MarkovChain};

/// value of cell `j` of chain `id` after `n` transitions (all exactly representable in f32)
pub fn expect_cell(id: u64, n: u64, j: usize, dim: usize) -> u64 {
    if dim == 1 {
        return id * 4096 + n;
    }
    match j {
        0 => id,
        1 => n,
        _ => (id * 31 + n * 7 + j as u64 * 13) % 1000,
    }
}

/// special (non-finite / beyond-f32) value shown by a float-valued counting chain in "special" mode:
/// in some transitions the last cell holds 1e300, +inf or NaN instead of its ordinary value
pub fn special_cell(id: u64, n: u64, j: usize, dim: usize) -> Option<f64> {
    if dim >= 2 && j == dim - 1 && n > 0 && (id + n) % 7 == 2 {
        Some([1e300, f64::INFINITY, f64::NAN][((n / 7) % 3) as usize])
    } else {
        None
    }
}

/// A chain whose state shows (chain id, number of transitions so far, a mixing cell per extra dim).
#[derive(Clone, Debug)]
pub struct CountChain<T> {
    pub id: u64,
    pub n: u64,
    pub dim: usize,
    pub state: Vec<T>,
    /// extra work per step: number of scheduling points inside one transition
    pub inner_points: u32,
    /// show special values (see `special_cell`) where the element type can hold them
    pub special: bool,
    /// fault: the chain's code panics in the transition that would make `n` this value
    pub panic_at: Option<u64>,
    /// fault: from this transition on the chain shows a state that is one coordinate short (a statistics
    /// tracker refuses it: the error path of the progress protocol)
    pub shrink_at: Option<u64>,
}

pub trait Cell: Clone + Send + 'static {
    fn of(v: u64) -> Self;
    fn back(&self) -> f64;
    /// the element type's rendering of a special f64 value (None: the type cannot hold it)
    fn of_special(_v: f64) -> Option<Self> {
        None
    }
}
impl Cell for f64 {
    fn of(v: u64) -> f64 {
        v as f64
    }
    fn back(&self) -> f64 {
        *self
    }
    fn of_special(v: f64) -> Option<f64> {
        Some(v)
    }
}
impl Cell for f32 {
    fn of(v: u64) -> f32 {
        v as f32
    }
    fn back(&self) -> f64 {
        *self as f64
    }
    fn of_special(v: f64) -> Option<f32> {
        Some(v as f32)
    }
}
impl Cell for i32 {
    fn of(v: u64) -> i32 {
        v as i32
    }
    fn back(&self) -> f64 {
        *self as f64
    }
}
impl Cell for usize {
    fn of(v: u64) -> usize {
        v as usize
    }
    fn back(&self) -> f64 {
        *self as f64
    }
}

impl<T: Cell> CountChain<T> {
    pub fn new(id: u64, dim: usize) -> Self {
        let mut c = CountChain { id, n: 0, dim, state: vec![], inner_points: 0, special: false, panic_at: None, shrink_at: None };
        c.render();
        c
    }
    fn render(&mut self) {
        let dim = if self.shrink_at.map(|k| self.n >= k).unwrap_or(false) { self.dim.saturating_sub(1) } else { self.dim };
        self.state = (0..dim)
            .map(|j| {
                if self.special {
                    if let Some(v) = special_cell(self.id, self.n, j, self.dim).and_then(T::of_special) {
                        return v;
                    }
                }
                T::of(expect_cell(self.id, self.n, j, self.dim))
            })
            .collect();
    }
}

impl<T: Cell> MarkovChain<T> for CountChain<T> {
    fn step(&mut self) -> &Vec<T> {
        for _ in 0..self.inner_points {
            mcmc_sim::sched_point("stub_inner");
        }
        if self.panic_at == Some(self.n + 1) {
            mcmc_sim::sim::count("fault_worker_crash_injected", 1);
            panic!("VERIF-INJECTED chain failure in transition {} of chain {}", self.n + 1, self.id);
        }
        self.n += 1;
        self.render();
        &self.state
    }
    fn current_state(&self) -> &Vec<T> {
        &self.state
    }
}

#[derive(Clone, Debug)]
pub struct CountSampler<T> {
    pub chains: Vec<CountChain<T>>,
}
impl<T: Cell> CountSampler<T> {
    pub fn new(n_chains: usize, dim: usize) -> Self {
        CountSampler { chains: (0..n_chains as u64).map(|i| CountChain::new(i, dim)).collect() }
    }
}
impl<T: Cell> HasChains<T> for CountSampler<T> {
    type Chain = CountChain<T>;
    fn chains_mut(&mut self) -> &mut Vec<Self::Chain> {
        &mut self.chains
    }
}
