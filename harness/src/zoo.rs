//! A small zoo of real samplers (real library code, harness-written targets/proposals) that the
//! schedule / progress / reproducibility scenarios drive.

use burn::backend::{Autodiff, NdArray};
use burn::prelude::*;
use burn::tensor::backend::AutodiffBackend;
use burn::tensor::Element;
use mini_mcmc::core::{init_with_seed, run_chain, ChainRunner, HasChains};
use mini_mcmc::distributions::{Conditional, DiffableGaussian2D, Gaussian2D, IsotropicGaussian, Proposal, Rosenbrock2D, Target};
use mini_mcmc::gibbs::GibbsSampler;
use mini_mcmc::hmc::HMC;
use mini_mcmc::metropolis_hastings::MetropolisHastings;
use mini_mcmc::nuts::NUTS;
use mini_mcmc::stats::RunStats;
use ndarray::{arr1, arr2, Array3};
use num_traits::Float;
use rand::rngs::SmallRng;
use rand::{Rng, SeedableRng};

pub type BF32 = Autodiff<NdArray<f32>>;
pub type BF64 = Autodiff<NdArray<f64>>;

#[derive(Clone, Copy, Debug, PartialEq, Eq)]
pub enum Mode {
    /// chains stepped one after the other in index order, no pool, no threads
    Sequential,
    Run,
    Progress,
}

#[derive(Clone, Debug)]
pub struct Spec {
    pub kind: String,
    pub n_chains: usize,
    pub seed: u64,
    pub pos_seed: u64,
    pub n_collect: usize,
    pub n_discard: usize,
    /// further run(n_collect, n_discard) calls on the same sampler object after the first one; their
    /// draws are appended to the first call's (the shape stays the first call's)
    pub more_calls: Vec<(usize, usize)>,
    /// a plain run(n_collect, n_discard) on the same sampler object BEFORE the judged call (its draws are
    /// dropped): the judged call then starts from a sampler that has already run
    pub prior: Option<(usize, usize)>,
    /// run a `Clone` of the built (seeded, not yet run) sampler instead of the built object itself: a clone is
    /// the sampler built from the same inputs and seed (samplers without a Clone impl run the built object)
    pub clone_of: bool,
}

pub struct RunOut {
    /// bit patterns of the returned draws, row-major [chain][obs][dim] (f32 widened exactly)
    pub bits: Vec<u64>,
    pub shape: [usize; 3],
    pub stats: Option<RunStats>,
}

pub fn bits_of_f64(v: &[f64]) -> Vec<u64> {
    v.iter().map(|x| x.to_bits()).collect()
}
fn arr_bits<T: Copy + Into<f64>>(a: &Array3<T>) -> (Vec<u64>, [usize; 3]) {
    let s = a.shape();
    (a.iter().map(|x| (*x).into().to_bits()).collect(), [s[0], s[1], s[2]])
}
fn arr_bits_i32(a: &Array3<i32>) -> (Vec<u64>, [usize; 3]) {
    let s = a.shape();
    (a.iter().map(|x| (*x as f64).to_bits()).collect(), [s[0], s[1], s[2]])
}
pub fn tensor_bits<B: Backend>(t: &Tensor<B, 3>) -> (Vec<u64>, [usize; 3]) {
    let d = t.dims();
    let v = t.to_data().convert::<f64>().to_vec::<f64>().unwrap();
    (bits_of_f64(&v), d)
}

// ---- MH: discrete table target with a seedable asymmetric random-walk proposal --------------
#[derive(Clone, Debug)]
pub struct TableTarget {
    pub logp: Vec<f64>,
}
impl Target<i32, f64> for TableTarget {
    fn unnorm_logp(&self, x: &[i32]) -> f64 {
        let i = x[0];
        if i < 0 || i as usize >= self.logp.len() {
            f64::NEG_INFINITY
        } else {
            self.logp[i as usize]
        }
    }
}
/// proposes x+1 with probability `p_up`, else x-1
#[derive(Clone, Debug)]
pub struct WalkProposal {
    pub p_up: f64,
    pub rng: SmallRng,
}
impl Proposal<i32, f64> for WalkProposal {
    fn sample(&mut self, cur: &[i32]) -> Vec<i32> {
        let u: f64 = self.rng.random();
        vec![if u < self.p_up { cur[0] + 1 } else { cur[0] - 1 }]
    }
    fn logp(&self, from: &[i32], to: &[i32]) -> f64 {
        if to[0] == from[0] + 1 {
            self.p_up.ln()
        } else if to[0] == from[0] - 1 {
            (1.0 - self.p_up).ln()
        } else {
            f64::NEG_INFINITY
        }
    }
    fn set_seed(mut self, seed: u64) -> Self {
        self.rng = SmallRng::seed_from_u64(seed);
        self
    }
}

// ---- Gibbs: a conditional that is a deterministic function of (index, state) -----------------
#[derive(Clone, Debug)]
pub struct DetConditional;
impl Conditional<f64> for DetConditional {
    fn sample(&mut self, i: usize, given: &[f64]) -> f64 {
        let s: f64 = given.iter().enumerate().filter(|(j, _)| *j != i).map(|(j, x)| x * (1.0 + j as f64 * 0.25)).sum();
        (0.5 * s + i as f64 + 1.0).sin() * 3.0
    }
}

/// A built sampler that can be run repeatedly (call histories) in any mode.
pub trait AnySampler {
    fn run(&mut self, n_collect: usize, n_discard: usize, mode: Mode) -> Result<RunOut, String>;
    /// current state of every chain, bit patterns, row-major [chain][dim]
    fn state_bits(&mut self) -> Vec<u64>;
    /// perform `n` transitions through the public per-transition API (MH/Gibbs: every chain's
    /// step(); HMC: step()); None where no such API reproduces run() (NUTS)
    fn manual_steps(&mut self, n: usize) -> Option<()>;
    /// `Clone::clone` of the sampler where the library implements Clone for it
    fn clone_sampler(&self) -> Option<Box<dyn AnySampler>> {
        None
    }
}

pub struct RunnerSampler<S, T, F> {
    pub s: S,
    pub conv: F,
    pub cloner: Option<fn(&S) -> S>,
    pub ph: std::marker::PhantomData<T>,
}
impl<S, T, F> AnySampler for RunnerSampler<S, T, F>
where
    S: HasChains<T> + 'static,
    T: ndarray::LinalgScalar + PartialEq + Send + num_traits::ToPrimitive + 'static,
    F: Fn(&Array3<T>) -> (Vec<u64>, [usize; 3]) + Clone + 'static,
{
    fn clone_sampler(&self) -> Option<Box<dyn AnySampler>> {
        self.cloner.map(|c| Box::new(RunnerSampler { s: c(&self.s), conv: self.conv.clone(), cloner: self.cloner, ph: std::marker::PhantomData }) as Box<dyn AnySampler>)
    }
    fn run(&mut self, n_collect: usize, n_discard: usize, mode: Mode) -> Result<RunOut, String> {
        match mode {
            Mode::Sequential => {
                let mut rows = vec![];
                for c in self.s.chains_mut().iter_mut() {
                    rows.push(run_chain(c, n_collect, n_discard));
                }
                let views: Vec<_> = rows.iter().map(|r| r.view()).collect();
                let a = ndarray::stack(ndarray::Axis(0), &views).map_err(|e| e.to_string())?;
                let (bits, shape) = (self.conv)(&a);
                Ok(RunOut { bits, shape, stats: None })
            }
            Mode::Run => {
                let a = self.s.run(n_collect, n_discard).map_err(|e| e.to_string())?;
                let (bits, shape) = (self.conv)(&a);
                Ok(RunOut { bits, shape, stats: None })
            }
            Mode::Progress => {
                let (a, st) = self.s.run_progress(n_collect, n_discard).map_err(|e| e.to_string())?;
                let (bits, shape) = (self.conv)(&a);
                Ok(RunOut { bits, shape, stats: Some(st) })
            }
        }
    }
    fn state_bits(&mut self) -> Vec<u64> {
        use mini_mcmc::core::MarkovChain;
        let mut out = vec![];
        for c in self.s.chains_mut().iter_mut() {
            let st = c.current_state().clone();
            let a = Array3::from_shape_vec((1, 1, st.len()), st).unwrap();
            out.extend((self.conv)(&a).0);
        }
        out
    }
    fn manual_steps(&mut self, n: usize) -> Option<()> {
        use mini_mcmc::core::MarkovChain;
        for c in self.s.chains_mut().iter_mut() {
            for _ in 0..n {
                c.step();
            }
        }
        Some(())
    }
}

pub struct HmcSampler<T, B: AutodiffBackend, G> {
    pub h: HMC<T, B, G>,
}
impl<T, B, G> AnySampler for HmcSampler<T, B, G>
where
    T: Float + burn::tensor::ElementConversion + Element + rand_distr::uniform::SampleUniform + num_traits::FromPrimitive,
    B: AutodiffBackend,
    T: 'static,
    G: mini_mcmc::distributions::BatchedGradientTarget<T, B> + Sync + Clone + 'static,
    rand_distr::StandardNormal: rand::distr::Distribution<T>,
    rand_distr::StandardUniform: rand_distr::Distribution<T>,
{
    fn run(&mut self, n_collect: usize, n_discard: usize, mode: Mode) -> Result<RunOut, String> {
        match mode {
            Mode::Sequential | Mode::Run => {
                let t = self.h.run(n_collect, n_discard);
                let (bits, shape) = tensor_bits(&t);
                Ok(RunOut { bits, shape, stats: None })
            }
            Mode::Progress => {
                let (t, st) = self.h.run_progress(n_collect, n_discard).map_err(|e| e.to_string())?;
                let (bits, shape) = tensor_bits(&t);
                Ok(RunOut { bits, shape, stats: Some(st) })
            }
        }
    }
    fn clone_sampler(&self) -> Option<Box<dyn AnySampler>> {
        Some(Box::new(HmcSampler { h: self.h.clone() }))
    }
    fn state_bits(&mut self) -> Vec<u64> {
        bits_of_f64(&self.h.positions.to_data().convert::<f64>().to_vec::<f64>().unwrap())
    }
    fn manual_steps(&mut self, n: usize) -> Option<()> {
        for _ in 0..n {
            self.h.step();
        }
        Some(())
    }
}

pub struct NutsSampler<T, B: AutodiffBackend, G>
where
    T: Float + burn::tensor::ElementConversion + Element + rand_distr::uniform::SampleUniform + num_traits::FromPrimitive,
    G: mini_mcmc::distributions::GradientTarget<T, B> + Sync,
    rand_distr::StandardNormal: rand::distr::Distribution<T>,
    rand_distr::StandardUniform: rand_distr::Distribution<T>,
    rand_distr::Exp1: rand_distr::Distribution<T>,
{
    pub s: NUTS<T, B, G>,
    /// stand-alone chains built individually with the documented per-chain seeds (seed + c + 1)
    pub alone: Vec<mini_mcmc::nuts::NUTSChain<T, B, G>>,
}
impl<T, B, G> AnySampler for NutsSampler<T, B, G>
where
    T: Float + burn::tensor::ElementConversion + Element + rand_distr::uniform::SampleUniform + num_traits::FromPrimitive + Send,
    B: AutodiffBackend + Send,
    G: mini_mcmc::distributions::GradientTarget<T, B> + Sync + Clone + Send + 'static,
    rand_distr::StandardNormal: rand::distr::Distribution<T>,
    rand_distr::StandardUniform: rand_distr::Distribution<T>,
    rand_distr::Exp1: rand_distr::Distribution<T>,
    T: 'static,
{
    fn run(&mut self, n_collect: usize, n_discard: usize, mode: Mode) -> Result<RunOut, String> {
        match mode {
            Mode::Sequential => {
                // the multi-chain runner's promise: exactly what its chains return individually
                let mut rows = vec![];
                for c in self.alone.iter_mut() {
                    rows.push(c.run(n_collect, n_discard));
                }
                let t = Tensor::<B, 2>::stack(rows, 0);
                let (bits, shape) = tensor_bits(&t);
                Ok(RunOut { bits, shape, stats: None })
            }
            Mode::Run => {
                let t = self.s.run(n_collect, n_discard);
                let (bits, shape) = tensor_bits(&t);
                Ok(RunOut { bits, shape, stats: None })
            }
            Mode::Progress => {
                let (t, st) = self.s.run_progress(n_collect, n_discard).map_err(|e| e.to_string())?;
                let (bits, shape) = tensor_bits(&t);
                Ok(RunOut { bits, shape, stats: Some(st) })
            }
        }
    }
    fn state_bits(&mut self) -> Vec<u64> {
        let mut out = vec![];
        for c in self.s.verif_chains().iter() {
            out.extend(bits_of_f64(&c.position.to_data().convert::<f64>().to_vec::<f64>().unwrap()));
        }
        out
    }
    fn manual_steps(&mut self, _n: usize) -> Option<()> {
        None
    }
    fn clone_sampler(&self) -> Option<Box<dyn AnySampler>> {
        Some(Box::new(NutsSampler { s: self.s.clone(), alone: self.alone.clone() }))
    }
}

fn nuts_pair<T, B, G>(target: G, init: Vec<Vec<T>>, p: T, seed: u64) -> NutsSampler<T, B, G>
where
    T: Float + burn::tensor::ElementConversion + Element + rand_distr::uniform::SampleUniform + num_traits::FromPrimitive + Send,
    B: AutodiffBackend + Send,
    G: mini_mcmc::distributions::GradientTarget<T, B> + Sync + Clone + Send,
    rand_distr::StandardNormal: rand::distr::Distribution<T>,
    rand_distr::StandardUniform: rand_distr::Distribution<T>,
    rand_distr::Exp1: rand_distr::Distribution<T>,
{
    let alone = init
        .iter()
        .enumerate()
        .map(|(c, pos)| mini_mcmc::nuts::NUTSChain::new(target.clone(), pos.clone(), p).set_seed(seed.wrapping_add(c as u64).wrapping_add(1)))
        .collect();
    NutsSampler { s: NUTS::new(target, init, p).set_seed(seed), alone }
}

fn rs<S, T, F>(s: S, conv: F) -> Box<dyn AnySampler>
where
    S: HasChains<T> + 'static,
    T: ndarray::LinalgScalar + PartialEq + Send + num_traits::ToPrimitive + 'static,
    F: Fn(&Array3<T>) -> (Vec<u64>, [usize; 3]) + Clone + 'static,
{
    Box::new(RunnerSampler { s, conv, cloner: None, ph: std::marker::PhantomData })
}
/// as `rs`, for samplers the library implements Clone for
fn rsc<S, T, F>(s: S, conv: F) -> Box<dyn AnySampler>
where
    S: HasChains<T> + Clone + 'static,
    T: ndarray::LinalgScalar + PartialEq + Send + num_traits::ToPrimitive + 'static,
    F: Fn(&Array3<T>) -> (Vec<u64>, [usize; 3]) + Clone + 'static,
{
    Box::new(RunnerSampler { s, conv, cloner: Some(<S as Clone>::clone), ph: std::marker::PhantomData })
}

pub const KINDS: &[&str] = &["mh_gauss", "mh_gauss_f32", "mh_table", "gibbs_det", "hmc_f32", "hmc_f64", "hmc_rosen_f32", "nuts_f32", "nuts_f64", "nuts_rosen_f64"];

/// does a transition of this sampler kind draw from a library-owned generator?
pub fn kind_uses_library_rng(kind: &str) -> bool {
    kind != "gibbs_det"
}

pub fn is_nuts(kind: &str) -> bool {
    kind.starts_with("nuts")
}

/// Build the sampler from (inputs, seed) and run it once in `mode`.
pub fn run_spec(spec: &Spec, mode: Mode) -> Result<RunOut, String> {
    let mut s = build(spec)?;
    if spec.clone_of {
        if let Some(c) = s.clone_sampler() {
            s = c;
        }
    }
    if let Some((c, d)) = spec.prior {
        // on the object the judged call will use (the NUTS wrapper keeps stand-alone chains for the
        // sequential reference and the library's multi-chain sampler for run / run_progress)
        let _ = s.run(c, d, if matches!(mode, Mode::Sequential) { Mode::Sequential } else { Mode::Run })?;
    }
    let mut out = s.run(spec.n_collect, spec.n_discard, mode)?;
    for (c, d) in &spec.more_calls {
        let more = s.run(*c, *d, mode)?;
        out.bits.push(0xca11_ca11_ca11_ca11);
        out.bits.extend(more.shape.iter().map(|x| *x as u64));
        out.bits.extend(more.bits);
    }
    Ok(out)
}

/// Build the sampler from (inputs, seed).
pub fn build(spec: &Spec) -> Result<Box<dyn AnySampler>, String> {
    let nc = spec.n_chains;
    Ok(match spec.kind.as_str() {
        "mh_gauss" => {
            let target = Gaussian2D { mean: arr1(&[0.5f64, -1.0]), cov: arr2(&[[2.0, 0.6], [0.6, 1.0]]) };
            let proposal = IsotropicGaussian::<f64>::new(0.9).set_seed(spec.pos_seed ^ 0x5eed);
            rsc(MetropolisHastings::new(target, proposal, init_with_seed::<f64>(nc, 2, spec.pos_seed)).seed(spec.seed), arr_bits::<f64>)
        }
        "mh_gauss_f32" => {
            let target = Gaussian2D { mean: arr1(&[0.5f32, -1.0]), cov: arr2(&[[2.0, 0.6], [0.6, 1.0]]) };
            let proposal = IsotropicGaussian::<f32>::new(0.9).set_seed(spec.pos_seed ^ 0x5eed);
            rsc(MetropolisHastings::new(target, proposal, init_with_seed::<f32>(nc, 2, spec.pos_seed)).seed(spec.seed), arr_bits::<f32>)
        }
        "mh_table" => {
            let target = TableTarget { logp: vec![-1.0, -0.2, -2.5, f64::NEG_INFINITY, -0.7, -1.3, -3.0] };
            let proposal = WalkProposal { p_up: 0.6, rng: SmallRng::seed_from_u64(0) }.set_seed(spec.pos_seed ^ 0x77);
            let init: Vec<Vec<i32>> = (0..nc).map(|c| vec![(c % 3) as i32]).collect();
            rsc(MetropolisHastings::new(target, proposal, init).seed(spec.seed), arr_bits_i32)
        }
        "gibbs_det" => {
            rs(GibbsSampler::new(DetConditional, init_with_seed::<f64>(nc, 3, spec.pos_seed)).set_seed(spec.seed), arr_bits::<f64>)
        }
        "hmc_f32" => {
            let t = DiffableGaussian2D::new([0.0f32, 1.0], [[4.0, 2.0], [2.0, 3.0]]);
            Box::new(HmcSampler { h: HMC::<f32, BF32, _>::new(t, init_with_seed::<f32>(nc, 2, spec.pos_seed), 0.1, 5).set_seed(spec.seed) })
        }
        "hmc_f64" => {
            let t = DiffableGaussian2D::new([0.0f64, 1.0], [[4.0, 2.0], [2.0, 3.0]]);
            Box::new(HmcSampler { h: HMC::<f64, BF64, _>::new(t, init_with_seed::<f64>(nc, 2, spec.pos_seed), 0.1, 5).set_seed(spec.seed) })
        }
        // a one-dimensional state: [n_collect, n_chains, 1] buffers, where a transpose and a reshape differ
        "hmc_1d_f64" => {
            let t = crate::gtargets::GTarget::new(crate::gtargets::GKind::Quartic, 1);
            Box::new(HmcSampler { h: HMC::<f64, BF64, _>::new(t, init_with_seed::<f64>(nc, 1, spec.pos_seed), 0.2, 3).set_seed(spec.seed) })
        }
        "hmc_rosen_f32" => {
            let t = Rosenbrock2D { a: 1.0f32, b: 10.0f32 };
            Box::new(HmcSampler { h: HMC::<f32, BF32, _>::new(t, init_with_seed::<f32>(nc, 2, spec.pos_seed), 0.02, 4).set_seed(spec.seed) })
        }
        "nuts_f32" => {
            let t = DiffableGaussian2D::new([0.0f32, 1.0], [[4.0, 2.0], [2.0, 3.0]]);
            Box::new(nuts_pair::<f32, BF32, _>(t, init_with_seed::<f32>(nc, 2, spec.pos_seed), 0.8, spec.seed))
        }
        "nuts_f64" => {
            let t = DiffableGaussian2D::new([0.0f64, 1.0], [[4.0, 2.0], [2.0, 3.0]]);
            Box::new(nuts_pair::<f64, BF64, _>(t, init_with_seed::<f64>(nc, 2, spec.pos_seed), 0.8, spec.seed))
        }
        "nuts_rosen_f64" => {
            let t = Rosenbrock2D { a: 1.0f64, b: 10.0f64 };
            Box::new(nuts_pair::<f64, BF64, _>(t, init_with_seed::<f64>(nc, 2, spec.pos_seed), 0.9, spec.seed))
        }
        // element type / backend mismatches for the C10 backend matrix
        "hmc_t64_b32" => {
            let t = DiffableGaussian2D::new([0.0f64, 1.0], [[4.0, 2.0], [2.0, 3.0]]);
            Box::new(HmcSampler { h: HMC::<f64, BF32, _>::new(t, init_with_seed::<f64>(nc, 2, spec.pos_seed), 0.1, 5).set_seed(spec.seed) })
        }
        "hmc_t32_b64" => {
            let t = DiffableGaussian2D::new([0.0f32, 1.0], [[4.0, 2.0], [2.0, 3.0]]);
            Box::new(HmcSampler { h: HMC::<f32, BF64, _>::new(t, init_with_seed::<f32>(nc, 2, spec.pos_seed), 0.1, 5).set_seed(spec.seed) })
        }
        "nuts_t64_b32" => {
            let t = DiffableGaussian2D::new([0.0f64, 1.0], [[4.0, 2.0], [2.0, 3.0]]);
            Box::new(nuts_pair::<f64, BF32, _>(t, init_with_seed::<f64>(nc, 2, spec.pos_seed), 0.8, spec.seed))
        }
        "nuts_t32_b64" => {
            let t = DiffableGaussian2D::new([0.0f32, 1.0], [[4.0, 2.0], [2.0, 3.0]]);
            Box::new(nuts_pair::<f32, BF64, _>(t, init_with_seed::<f32>(nc, 2, spec.pos_seed), 0.8, spec.seed))
        }
        other => return Err(format!("HARNESS-ERROR: unknown sampler kind {other}")),
    })
}
