//! Reference models: an independent implementation of Hoffman & Gelman's Algorithm 6 (NUTS with
//! slice sampling and the efficient tree building) in plain f64 on the analytic gradient, fed the
//! draws the library consumed BY ROLE (momentum, slice level, direction of each doubling, merge
//! uniform of each merge in recursion order, accept uniform of each doubling).
//!
//! Every discrete decision carries a margin derived from a shadow trajectory started a few backend
//! ulps away (condition-aware tolerance); a decision inside its margin marks the transition
//! "ambiguous": it is not judged, only counted.

use crate::gtargets::GTarget;

#[derive(Clone, Debug)]
pub struct Pt {
    pub x: Vec<f64>,
    pub p: Vec<f64>,
    pub g: Vec<f64>,
    /// shadow copy (perturbed start), same discrete history
    pub xs: Vec<f64>,
    pub ps: Vec<f64>,
    pub gs: Vec<f64>,
    /// number of leapfrog steps from the start of the transition (for the rounding floor)
    pub k: usize,
}

#[derive(Clone, Debug, Default)]
pub struct Feed {
    pub dirs: Vec<i8>,
    pub merge_us: Vec<f64>,
    pub accept_us: Vec<f64>,
    pub di: usize,
    pub mi: usize,
    pub ai: usize,
}

#[derive(Clone, Debug, PartialEq)]
pub enum Stop {
    UTurn,
    SubtreeStopped,
    Divergence,
    /// the library performed more doublings than the reference wants (feed exhausted is the other way round)
    FeedExhausted,
}

#[derive(Clone, Debug)]
pub struct TreeOut {
    pub minus: Pt,
    pub plus: Pt,
    pub cand: Pt,
    pub cand_joint: f64,
    pub n: usize,
    pub s: bool,
    pub alpha: f64,
    pub n_alpha: usize,
    pub diverged: bool,
}

pub struct Ctx<'a> {
    pub t: &'a GTarget,
    pub eps: f64,
    pub eps_b: f64,
    pub logu: f64,
    pub joint0: f64,
    pub feed: Feed,
    pub ambiguous: Option<String>,
    pub structure_error: Option<String>,
    pub leaves: Vec<(Vec<f64>, f64, f64)>, // (x, joint, tolerance on x) of every leaf in visiting order
    pub max_joint_err: f64,
    pub leapfrogs: usize,
    /// every quantity of this case is a small dyadic rational, so the library's arithmetic and the
    /// reference's are both exact: decisions AT a threshold (a U-turn product of exactly 0, an energy
    /// exactly at the slice level) are decidable and are judged instead of being marked ambiguous
    pub exact: bool,
}

fn maxabs(v: &[f64]) -> f64 {
    v.iter().fold(0.0f64, |a, b| a.max(b.abs()))
}
fn maxdiff(a: &[f64], b: &[f64]) -> f64 {
    a.iter().zip(b).fold(0.0f64, |m, (x, y)| if (x - y).is_nan() { f64::INFINITY } else { m.max((x - y).abs()) })
}

impl<'a> Ctx<'a> {
    pub fn start(&self, x: &[f64], p: &[f64]) -> Pt {
        let pert = |v: &[f64], salt: u64| -> Vec<f64> { v.iter().enumerate().map(|(i, a)| a + 4.0 * self.eps_b * (a.abs() + 1e-3) * if (i as u64 + salt) % 2 == 0 { 1.0 } else { -1.0 }).collect() };
        let xs = pert(x, 0);
        let ps = pert(p, 1);
        Pt { x: x.to_vec(), p: p.to_vec(), g: self.t.grad(x), gs: self.t.grad(&xs), xs, ps, k: 0 }
    }

    fn leap(&mut self, a: &Pt, v: i8) -> Pt {
        self.leapfrogs += 1;
        let e = v as f64 * self.eps;
        // a step that is below the resolution of the position in the backend's float type cannot
        // move the library's position at all (x + eps p == x): its trajectory then has nothing to do
        // with the f64 one. Not decidable against this reference: ambiguous.
        if !self.exact && self.ambiguous.is_none() && self.eps.abs() * (maxabs(&a.p) + maxabs(&a.g) * self.eps.abs()) < 0.5 * self.eps_b * maxabs(&a.x) {
            self.ambiguous = Some(format!("step size {:e} is below the resolution of the position in the backend's float type", self.eps));
        }
        let step = |x: &[f64], p: &[f64], g: &[f64], t: &GTarget| -> (Vec<f64>, Vec<f64>, Vec<f64>) {
            let mut p1: Vec<f64> = p.iter().zip(g).map(|(p, g)| p + 0.5 * e * g).collect();
            let x1: Vec<f64> = x.iter().zip(p1.iter()).map(|(x, p)| x + e * p).collect();
            let g1 = t.grad(&x1);
            for i in 0..p1.len() {
                p1[i] += 0.5 * e * g1[i];
            }
            (x1, p1, g1)
        };
        let (x, p, g) = step(&a.x, &a.p, &a.g, self.t);
        let (xs, ps, gs) = step(&a.xs, &a.ps, &a.gs, self.t);
        Pt { x, p, g, xs, ps, gs, k: a.k + 1 }
    }

    pub fn joint(&self, a: &Pt) -> (f64, f64) {
        let j = self.t.logp(&a.x) - 0.5 * a.p.iter().map(|v| v * v).sum::<f64>();
        let js = self.t.logp(&a.xs) - 0.5 * a.ps.iter().map(|v| v * v).sum::<f64>();
        let mag = self.t.logp(&a.x).abs() + a.p.iter().map(|v| v * v).sum::<f64>() + 1.0;
        let tol = 64.0 * (j - js).abs() + 256.0 * self.eps_b * mag * (a.k as f64 + 1.0).sqrt();
        (j, if tol.is_nan() { f64::INFINITY } else { tol })
    }

    pub fn pos_tol(&self, a: &Pt) -> f64 {
        let scale = maxabs(&a.x).max(1.0);
        64.0 * maxdiff(&a.x, &a.xs) + 256.0 * self.eps_b * scale * (a.k as f64 + 1.0)
    }

    /// U-turn test of the library: continue iff (x+ - x-).p- >= 0 and (x+ - x-).p+ >= 0
    fn no_uturn(&mut self, minus: &Pt, plus: &Pt) -> bool {
        let dot = |xm: &[f64], xp: &[f64], p: &[f64]| -> f64 { xp.iter().zip(xm).zip(p).map(|((a, b), c)| (a - b) * c).sum() };
        let d1 = dot(&minus.x, &plus.x, &minus.p);
        let d2 = dot(&minus.x, &plus.x, &plus.p);
        let d1s = dot(&minus.xs, &plus.xs, &minus.ps);
        let d2s = dot(&minus.xs, &plus.xs, &plus.ps);
        let len: f64 = plus.x.iter().zip(&minus.x).map(|(a, b)| (a - b).abs()).sum::<f64>() + 1e-300;
        let kk = plus.k.max(minus.k) as f64 + 1.0;
        // rounding of the positions themselves (half an ulp of |x| per leapfrog step, systematic when
        // the same small increment is added again and again): absolute, not relative to the
        // displacement x+ - x-, which matters once a step is only a few ulps of the position
        let xround = 4.0 * self.eps_b * maxabs(&minus.x).max(maxabs(&plus.x)) * kk;
        let psum = |p: &[f64]| p.iter().map(|v| v.abs()).sum::<f64>();
        let floor = 256.0 * self.eps_b * len * (maxabs(&minus.p).max(maxabs(&plus.p)) + 1e-300) * kk + xround * psum(&minus.p).max(psum(&plus.p));
        let m1 = 64.0 * (d1 - d1s).abs() + floor;
        let m2 = 64.0 * (d2 - d2s).abs() + floor;
        if !(d1.is_finite() && d2.is_finite()) {
            // NaN / inf dot products: the comparison `>= 0` is false for NaN in the library as well
            return d1 >= 0.0 && d2 >= 0.0;
        }
        if !self.exact && (d1.abs() <= m1 || d2.abs() <= m2) && self.ambiguous.is_none() {
            // a sign inside its margin only matters if the other test does not already decide "stop"
            let other_decides = (d1 < -m1) || (d2 < -m2);
            if !other_decides {
                self.ambiguous = Some(format!("U-turn dot products {d1:e} / {d2:e} inside their margins {m1:e} / {m2:e}"));
            }
        }
        d1 >= 0.0 && d2 >= 0.0
    }

    pub fn build_tree(&mut self, from: &Pt, v: i8, j: usize) -> TreeOut {
        if j == 0 {
            let q = self.leap(from, v);
            let (joint, tol) = self.joint(&q);
            // a leaf of NaN energy contributes exactly 0 to the statistic: it has no tolerance to add (its
            // infinite "tolerance" used to switch the whole statistic check off for the transition)
            if !joint.is_nan() {
                self.max_joint_err = self.max_joint_err.max(tol);
            }
            if self.ambiguous.is_none() && !self.exact {
                if (self.logu - joint).abs() <= tol {
                    self.ambiguous = Some(format!("slice test: joint {joint} within {tol:e} of the slice level {}", self.logu));
                } else if (self.logu - 1000.0 - joint).abs() <= tol {
                    self.ambiguous = Some(format!("divergence test: joint {joint} within {tol:e} of slice level - 1000"));
                }
            }
            // a leaf closer to the support boundary (NaN region, cliff) than the position tolerance: the
            // library's point may lie on the other side, where the energy is -inf / NaN
            if self.ambiguous.is_none() && !self.exact {
                let bd = self.t.boundary_distance(&q.x);
                let pt = self.pos_tol(&q);
                if bd <= pt {
                    self.ambiguous = Some(format!("leaf within {pt:e} of the support boundary (distance {bd:e})"));
                }
            }
            let n = (self.logu < joint) as usize;
            let s = (self.logu - 1000.0) < joint;
            // a leaf of undefined (NaN) energy is a rejection: it contributes 0 to the statistic
            let alpha = if joint.is_nan() { 0.0 } else { (joint - self.joint0).exp().min(1.0) };
            let xt = self.pos_tol(&q);
            self.leaves.push((q.x.clone(), joint, xt));
            return TreeOut { minus: q.clone(), plus: q.clone(), cand: q, cand_joint: joint, n, s, alpha, n_alpha: 1, diverged: !s };
        }
        let mut a = self.build_tree(from, v, j - 1);
        if a.s {
            let start = if v == -1 { a.minus.clone() } else { a.plus.clone() };
            let b = self.build_tree(&start, v, j - 1);
            if v == -1 {
                a.minus = b.minus.clone();
            } else {
                a.plus = b.plus.clone();
            }
            let u = if self.feed.mi < self.feed.merge_us.len() {
                self.feed.mi += 1;
                self.feed.merge_us[self.feed.mi - 1]
            } else {
                if self.structure_error.is_none() {
                    self.structure_error = Some("Algorithm 6 merges two sub-trees here but the library drew no merge uniform".into());
                }
                0.5
            };
            let denom = (a.n + b.n).max(1);
            if u < b.n as f64 / denom as f64 {
                a.cand = b.cand.clone();
                a.cand_joint = b.cand_joint;
            }
            a.n += b.n;
            let nu = self.no_uturn(&a.minus.clone(), &a.plus.clone());
            a.diverged = a.diverged || b.diverged;
            a.s = a.s && b.s && nu;
            a.alpha += b.alpha;
            a.n_alpha += b.n_alpha;
        }
        a
    }
}

#[derive(Clone, Debug)]
pub struct TransitionOut {
    pub next: Vec<f64>,
    pub next_tol: f64,
    pub depth: usize,
    pub n: usize,
    pub alpha: f64,
    pub n_alpha: usize,
    pub alpha_tol: f64,
    pub stop: Stop,
    pub ambiguous: Option<String>,
    pub structure_error: Option<String>,
    pub leaves: Vec<(Vec<f64>, f64, f64)>,
    pub leapfrogs: usize,
    pub moved: bool,
}

/// One NUTS transition per Algorithm 6 from position `x` with momentum `p0`, slice level `logu`
/// (log scale), step size `eps`, consuming the fed draws.
pub fn nuts_transition(t: &GTarget, x: &[f64], p0: &[f64], logu: f64, eps: f64, eps_b: f64, feed: Feed, max_depth: usize) -> TransitionOut {
    let joint0 = t.logp(x) - 0.5 * p0.iter().map(|v| v * v).sum::<f64>();
    let mut c = Ctx { t, eps, eps_b, logu, joint0, feed, ambiguous: None, structure_error: None, leaves: vec![], max_joint_err: 0.0, leapfrogs: 0, exact: false };
    let start = c.start(x, p0);
    let (mut minus, mut plus) = (start.clone(), start.clone());
    let mut cur = start.clone();
    let mut moved = false;
    let (mut j, mut n) = (0usize, 1usize);
    let (mut alpha, mut n_alpha) = (0.0, 0usize);
    let stop;
    loop {
        if c.feed.di >= c.feed.dirs.len() {
            stop = Stop::FeedExhausted;
            break;
        }
        if j > max_depth {
            stop = Stop::FeedExhausted;
            if c.ambiguous.is_none() {
                c.ambiguous = Some("tree deeper than the reference's budget".into());
            }
            break;
        }
        let v = c.feed.dirs[c.feed.di];
        c.feed.di += 1;
        let from = if v == -1 { minus.clone() } else { plus.clone() };
        let tr = c.build_tree(&from, v, j);
        if v == -1 {
            minus = tr.minus.clone();
        } else {
            plus = tr.plus.clone();
        }
        alpha = tr.alpha;
        n_alpha = tr.n_alpha;
        let ua = if c.feed.ai < c.feed.accept_us.len() {
            c.feed.ai += 1;
            c.feed.accept_us[c.feed.ai - 1]
        } else {
            if c.structure_error.is_none() {
                c.structure_error = Some("no accept uniform traced for this doubling".into());
            }
            1.0
        };
        let ratio = (tr.n as f64 / n as f64).min(1.0);
        if tr.s && (ua - ratio).abs() < 1e-6 && ratio < 1.0 && c.ambiguous.is_none() {
            c.ambiguous = Some(format!("accept uniform {ua} within 1e-6 of n'/n = {ratio}"));
        }
        if tr.s && ua < ratio {
            cur = tr.cand.clone();
            moved = true;
        }
        n += tr.n;
        let nu = c.no_uturn(&minus.clone(), &plus.clone());
        j += 1;
        if !(tr.s && nu) {
            stop = if tr.diverged { Stop::Divergence } else if !tr.s { Stop::SubtreeStopped } else { Stop::UTurn };
            break;
        }
    }
    let next_tol = c.pos_tol(&cur);
    TransitionOut {
        next: cur.x.clone(),
        next_tol,
        depth: j,
        n,
        alpha,
        n_alpha,
        alpha_tol: c.max_joint_err * n_alpha.max(1) as f64,
        stop,
        ambiguous: c.ambiguous.clone(),
        structure_error: c.structure_error.clone(),
        leaves: std::mem::take(&mut c.leaves),
        leapfrogs: c.leapfrogs,
        moved,
    }
}
