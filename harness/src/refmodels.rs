// reference models (filled in per property)
