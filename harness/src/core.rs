//! Harness core: seeded generation, scenario trait, parallel runner (child processes), shrinking,
//! replay files, known findings, evidence.

use serde_json::{json, Map, Value};
use std::collections::{BTreeMap, BTreeSet};
use std::io::Write;
use std::path::{Path, PathBuf};
use std::time::Instant;

pub const DEFAULT_SEED: u64 = 20261002;

pub fn mix(a: u64, b: u64) -> u64 {
    mcmc_sim::sim::mix(a, b)
}

pub fn str_hash(s: &str) -> u64 {
    let mut h = 0xcbf2_9ce4_8422_2325u64;
    for b in s.as_bytes() {
        h = (h ^ *b as u64).wrapping_mul(0x100_0000_01b3);
    }
    h
}

/// The generator every scenario draws from: SplitMix64 with convenience methods.
#[derive(Clone, Debug)]
pub struct Gen(pub mcmc_sim::sim::SplitMix);
impl Gen {
    pub fn new(seed: u64) -> Self {
        Gen(mcmc_sim::sim::SplitMix(seed))
    }
    pub fn u64(&mut self) -> u64 {
        self.0.next()
    }
    /// uniform in [lo, hi] inclusive
    pub fn range(&mut self, lo: u64, hi: u64) -> u64 {
        debug_assert!(hi >= lo);
        let span = hi - lo;
        if span == u64::MAX {
            return self.u64();
        }
        lo + self.u64() % (span + 1)
    }
    pub fn usize(&mut self, lo: usize, hi: usize) -> usize {
        self.range(lo as u64, hi as u64) as usize
    }
    pub fn bool(&mut self, num: u64, den: u64) -> bool {
        self.u64() % den < num
    }
    /// uniform in [0,1)
    pub fn f64(&mut self) -> f64 {
        (self.u64() >> 11) as f64 * (1.0 / (1u64 << 53) as f64)
    }
    pub fn f64_in(&mut self, lo: f64, hi: f64) -> f64 {
        lo + (hi - lo) * self.f64()
    }
    /// log-uniform in [lo, hi]
    pub fn log_uniform(&mut self, lo: f64, hi: f64) -> f64 {
        (lo.ln() + (hi.ln() - lo.ln()) * self.f64()).exp()
    }
    /// standard normal (Box-Muller; harness-owned, independent of the library's generators)
    pub fn normal(&mut self) -> f64 {
        let u1 = 1.0 - self.f64();
        let u2 = self.f64();
        (-2.0 * u1.ln()).sqrt() * (2.0 * std::f64::consts::PI * u2).cos()
    }
    pub fn pick<'a, T>(&mut self, xs: &'a [T]) -> &'a T {
        &xs[self.usize(0, xs.len() - 1)]
    }
    pub fn fork(&mut self) -> Gen {
        Gen::new(self.u64())
    }
}

#[derive(Clone, Copy, Debug, PartialEq, Eq)]
pub enum Tier {
    Quick,
    Thorough,
}
impl Tier {
    pub fn name(&self) -> &'static str {
        match self {
            Tier::Quick => "quick",
            Tier::Thorough => "thorough",
        }
    }
    pub fn pick<T>(&self, q: T, t: T) -> T {
        match self {
            Tier::Quick => q,
            Tier::Thorough => t,
        }
    }
}

#[derive(Clone, Debug)]
pub struct Violation {
    /// violation class: shrinking keeps a candidate only if the same class recurs
    pub class: String,
    /// identifies the specific failing input / call site for known_findings.txt
    pub key: String,
    pub detail: String,
}
impl Violation {
    pub fn new(class: &str, key: &str, detail: String) -> Self {
        Violation { class: class.to_string(), key: key.to_string(), detail }
    }
    pub fn to_json(&self) -> Value {
        json!({"class": self.class, "key": self.key, "detail": self.detail})
    }
    pub fn from_json(v: &Value) -> Violation {
        Violation {
            class: v["class"].as_str().unwrap_or("").to_string(),
            key: v["key"].as_str().unwrap_or("").to_string(),
            detail: v["detail"].as_str().unwrap_or("").to_string(),
        }
    }
}

#[derive(Clone, Debug, Default)]
pub struct Outcome {
    pub violations: Vec<Violation>,
    /// non-trivial by the scenario's rule
    pub nontrivial: bool,
    /// distinctness hash of what this run explored (schedule / fault plan / input)
    pub hash: u64,
    /// reach probes, fault kinds fired, ambiguous counts, ... summed over runs
    pub counters: BTreeMap<String, u64>,
    pub sim_time_ns: u64,
    /// units of work (transitions, saves, ...) for the throughput figures
    pub work: u64,
    /// a written-out description of the run (only when asked for)
    pub sample: Option<Value>,
    /// harness self-check failure (exit 2), never a violation
    pub harness_error: Option<String>,
    /// recorded schedule (task id per scheduling decision) of a simulated run, when asked for a sample
    pub schedule: Option<Vec<u32>>,
}
impl Outcome {
    pub fn count(&mut self, k: &str, by: u64) {
        *self.counters.entry(k.to_string()).or_insert(0) += by;
    }
    pub fn violate(&mut self, class: &str, key: &str, detail: String) {
        if self.violations.len() < 8 {
            self.violations.push(Violation::new(class, key, detail));
        }
    }
    pub fn absorb_counters(&mut self, c: &BTreeMap<String, u64>) {
        for (k, v) in c {
            *self.counters.entry(k.clone()).or_insert(0) += *v;
        }
    }
}

pub trait Scenario: Sync {
    fn name(&self) -> &'static str;
    /// number of runs in a tier
    fn runs(&self, tier: Tier) -> u64;
    /// fully expanded parameters of run `idx` (a pure function of the generator state)
    fn generate(&self, g: &mut Gen, tier: Tier, idx: u64) -> Value;
    /// execute one run; a pure function of `params` and the code under test
    fn execute(&self, params: &Value, want_sample: bool) -> Outcome;
    /// smaller candidates, most aggressive first
    fn shrink(&self, _params: &Value) -> Vec<Value> {
        vec![]
    }
    /// what makes a run of this scenario non-trivial / distinct (for the evidence file)
    fn rule(&self) -> &'static str;
    /// components: which ran real code, which a stub
    fn components(&self) -> Value {
        json!({})
    }
    /// May this run take part in the determinism re-sample (executed twice, fingerprints compared)?
    /// False only where the SUBSTRATE is known not to be repeatable: gradients computed by the f32
    /// NdArray backend go through an approximate, alignment-dependent reciprocal (observed: the
    /// gradient of log() differs by 3e-5 relative between two evaluations of the same input in one
    /// process), so counters that depend on rounding-edge decisions may differ between executions.
    fn recheckable(&self, _params: &Value) -> bool {
        true
    }
}

pub struct PropertyDef {
    pub id: &'static str,
    pub level: &'static str,
    pub scenarios: Vec<Box<dyn Scenario>>,
    pub assumptions: Vec<&'static str>,
}

pub fn run_seed(verif_seed: u64, prop: &str, scen: &str, idx: u64) -> u64 {
    mix(mix(mix(verif_seed, str_hash(prop)), str_hash(scen)), idx)
}

// ---------------------------------------------------------------------------------------------
// helpers for params
// ---------------------------------------------------------------------------------------------
pub fn pu(v: &Value, k: &str) -> u64 {
    match &v[k] {
        Value::Number(n) => n.as_u64().unwrap_or_else(|| panic!("HARNESS-ERROR: param {k} not u64: {n}")),
        Value::String(s) => s.parse::<u64>().unwrap_or_else(|_| panic!("HARNESS-ERROR: param {k} not u64: {s}")),
        other => panic!("HARNESS-ERROR: param {k} missing or wrong type: {other}"),
    }
}
pub fn pus(v: &Value, k: &str) -> usize {
    pu(v, k) as usize
}
pub fn pf(v: &Value, k: &str) -> f64 {
    match &v[k] {
        Value::String(s) if s.starts_with("0x") => f64::from_bits(u64::from_str_radix(&s[2..], 16).unwrap()),
        Value::Number(n) => n.as_f64().unwrap(),
        other => panic!("HARNESS-ERROR: param {k} missing or wrong type: {other}"),
    }
}
pub fn ps<'a>(v: &'a Value, k: &str) -> &'a str {
    v[k].as_str().unwrap_or_else(|| panic!("HARNESS-ERROR: param {k} missing or not a string"))
}
pub fn pb(v: &Value, k: &str) -> bool {
    v[k].as_bool().unwrap_or_else(|| panic!("HARNESS-ERROR: param {k} missing or not a bool"))
}
/// f64 stored bit-exactly
pub fn fbits(x: f64) -> Value {
    Value::String(format!("0x{:016x}", x.to_bits()))
}
pub fn with(v: &Value, k: &str, x: Value) -> Value {
    let mut m: Map<String, Value> = v.as_object().cloned().unwrap_or_default();
    m.insert(k.to_string(), x);
    Value::Object(m)
}
/// Source-literal dictionary (written by bin/check from the sources under test): large integer
/// constants (seed arithmetic) and small ones (size thresholds). Built-in fallbacks are always in.
pub fn dict() -> &'static (Vec<u64>, Vec<u64>) {
    static D: std::sync::OnceLock<(Vec<u64>, Vec<u64>)> = std::sync::OnceLock::new();
    D.get_or_init(|| {
        let mut big: Vec<u64> = vec![0x9E37_79B9_7F4A_7C15, 1u64 << 32, 1u64 << 63, u64::MAX];
        let mut small: Vec<u64> = vec![16, 32, 64, 128, 256, 1024, 4096];
        if let Ok(p) = std::env::var("VERIF_DICT") {
            if let Ok(txt) = std::fs::read_to_string(p) {
                for l in txt.lines() {
                    let mut it = l.split_whitespace();
                    match (it.next(), it.next()) {
                        (Some("big"), Some(v)) => {
                            if let Ok(x) = u64::from_str_radix(v.trim_start_matches("0x"), 16) {
                                big.push(x);
                            }
                        }
                        (Some("small"), Some(v)) => {
                            if let Ok(x) = v.parse::<u64>() {
                                small.push(x);
                            }
                        }
                        _ => {}
                    }
                }
            }
        }
        big.sort_unstable();
        big.dedup();
        small.sort_unstable();
        small.dedup();
        (big, small)
    })
}

/// a seed next to a large constant of the dictionary: c, c +- k (k <= spread), c ^ k, !c
pub fn dict_seed(g: &mut Gen, spread: u64) -> u64 {
    let c = *g.pick(&dict().0);
    let k = g.range(0, spread);
    match g.range(0, 5) {
        0 | 1 => c.wrapping_sub(k),
        2 => c.wrapping_add(k),
        3 => c ^ k,
        4 => (!c).wrapping_add(k),
        _ => c.wrapping_neg().wrapping_sub(k),
    }
}

/// a size at a threshold of the dictionary (t - 1, t, t + 1) within [lo, hi]; None if there is none
pub fn dict_size(g: &mut Gen, lo: usize, hi: usize) -> Option<usize> {
    let c: Vec<u64> = dict().1.iter().copied().filter(|v| *v + 1 >= lo as u64 && *v <= hi as u64 + 1).collect();
    if c.is_empty() {
        return None;
    }
    let t = *g.pick(&c) as i64 + g.range(0, 2) as i64 - 1;
    Some((t.max(lo as i64) as usize).min(hi))
}

/// a size: usually uniform in [lo, hi], 1 time in 5 at a threshold of the source-literal dictionary
/// (t - 1, t, t + 1) within [lo, hi_dict]
pub fn size(g: &mut Gen, lo: usize, hi: usize, hi_dict: usize) -> usize {
    if g.bool(1, 5) {
        if let Some(s) = dict_size(g, lo, hi_dict) {
            return s;
        }
    }
    g.usize(lo, hi)
}

/// standard shrink candidates for an integer parameter: lo, halfway, -1
pub fn shrink_int(v: &Value, k: &str, lo: u64, out: &mut Vec<Value>) {
    if v.get(k).is_none() {
        return;
    }
    let cur = pu(v, k);
    if cur > lo {
        out.push(with(v, k, json!(lo)));
        let half = lo + (cur - lo) / 2;
        if half != lo && half != cur {
            out.push(with(v, k, json!(half)));
        }
        if cur - 1 != lo && cur - 1 != half {
            out.push(with(v, k, json!(cur - 1)));
        }
    }
}

// ---------------------------------------------------------------------------------------------
// known findings
// ---------------------------------------------------------------------------------------------
#[derive(Clone, Debug)]
pub struct KnownFinding {
    pub property: String,
    pub key: String,
    pub text: String,
}

pub fn load_known_findings(path: &Path) -> Vec<KnownFinding> {
    let mut out = vec![];
    let Ok(s) = std::fs::read_to_string(path) else { return out };
    for line in s.lines() {
        let line = line.trim();
        if !line.starts_with("known:") {
            continue; // "fixed:" lines and comments suppress nothing
        }
        let rest = line["known:".len()..].trim();
        let mut property = String::new();
        let mut key = String::new();
        let mut text = vec![];
        for tok in rest.split_whitespace() {
            if let Some(p) = tok.strip_prefix("property=") {
                if property.is_empty() {
                    property = p.to_string();
                    continue;
                }
            }
            if let Some(k) = tok.strip_prefix("key=") {
                if key.is_empty() {
                    key = k.to_string();
                    continue;
                }
            }
            text.push(tok);
        }
        if !property.is_empty() && !key.is_empty() {
            out.push(KnownFinding { property, key, text: text.join(" ") });
        }
    }
    out
}

// ---------------------------------------------------------------------------------------------
// child protocol
// ---------------------------------------------------------------------------------------------
#[derive(Default)]
pub struct Agg {
    pub evaluations: u64,
    pub nontrivial: u64,
    pub hashes: BTreeSet<u64>,
    pub counters: BTreeMap<String, u64>,
    pub sim_time_ns: u128,
    pub work: u64,
    pub violations: Vec<(String, u64, Value, Violation)>, // scenario, idx, params, violation
    pub samples: Vec<Value>,
    pub harness_errors: Vec<String>,
    pub per_scenario: BTreeMap<String, (u64, u64)>, // evaluations, nontrivial
    pub determinism_rechecks: u64,
    /// wrapping sum over the repeatable runs of hash(scenario, run index, outcome fingerprint): independent
    /// of how the run indices were distributed over worker processes and of their completion order
    pub outcome_digest: u64,
    pub digest_runs: u64,
}

impl Agg {
    pub fn to_json(&self) -> Value {
        json!({
            "evaluations": self.evaluations,
            "nontrivial": self.nontrivial,
            "hashes": self.hashes.iter().map(|h| format!("{h:x}")).collect::<Vec<_>>(),
            "counters": self.counters,
            "sim_time_ns": self.sim_time_ns.to_string(),
            "work": self.work,
            "violations": self.violations.iter().map(|(s,i,p,v)| json!({"scenario": s, "idx": i, "params": p, "violation": v.to_json()})).collect::<Vec<_>>(),
            "samples": self.samples,
            "harness_errors": self.harness_errors,
            "per_scenario": self.per_scenario.iter().map(|(k,(e,n))| (k.clone(), json!([e,n]))).collect::<Map<String,Value>>(),
            "determinism_rechecks": self.determinism_rechecks,
            "outcome_digest": format!("{:x}", self.outcome_digest),
            "digest_runs": self.digest_runs,
        })
    }
    pub fn merge_json(&mut self, v: &Value) {
        self.evaluations += v["evaluations"].as_u64().unwrap_or(0);
        self.nontrivial += v["nontrivial"].as_u64().unwrap_or(0);
        if let Some(hs) = v["hashes"].as_array() {
            for h in hs {
                if let Some(s) = h.as_str() {
                    if let Ok(x) = u64::from_str_radix(s, 16) {
                        self.hashes.insert(x);
                    }
                }
            }
        }
        if let Some(c) = v["counters"].as_object() {
            for (k, x) in c {
                if k.starts_with("max_") {
                    let e = self.counters.entry(k.clone()).or_insert(0);
                    *e = (*e).max(x.as_u64().unwrap_or(0));
                } else {
                    *self.counters.entry(k.clone()).or_insert(0) += x.as_u64().unwrap_or(0);
                }
            }
        }
        self.sim_time_ns += v["sim_time_ns"].as_str().and_then(|s| s.parse::<u128>().ok()).unwrap_or(0);
        self.work += v["work"].as_u64().unwrap_or(0);
        if let Some(vs) = v["violations"].as_array() {
            for x in vs {
                self.violations.push((
                    x["scenario"].as_str().unwrap_or("").to_string(),
                    x["idx"].as_u64().unwrap_or(0),
                    x["params"].clone(),
                    Violation::from_json(&x["violation"]),
                ));
            }
        }
        if let Some(ss) = v["samples"].as_array() {
            for s in ss {
                if self.samples.len() < 6 {
                    self.samples.push(s.clone());
                }
            }
        }
        if let Some(es) = v["harness_errors"].as_array() {
            for e in es {
                self.harness_errors.push(e.as_str().unwrap_or("").to_string());
            }
        }
        if let Some(ps) = v["per_scenario"].as_object() {
            for (k, x) in ps {
                let e = self.per_scenario.entry(k.clone()).or_insert((0, 0));
                e.0 += x[0].as_u64().unwrap_or(0);
                e.1 += x[1].as_u64().unwrap_or(0);
            }
        }
        self.determinism_rechecks += v["determinism_rechecks"].as_u64().unwrap_or(0);
        self.outcome_digest = self.outcome_digest.wrapping_add(v["outcome_digest"].as_str().and_then(|s| u64::from_str_radix(s, 16).ok()).unwrap_or(0));
        self.digest_runs += v["digest_runs"].as_u64().unwrap_or(0);
    }
}

fn outcome_fingerprint(o: &Outcome) -> String {
    let mut s = format!("{:x}|{}|{}|", o.hash, o.nontrivial, o.work);
    for v in &o.violations {
        s.push_str(&v.class);
        s.push('/');
        s.push_str(&v.key);
        s.push(';');
    }
    for (k, v) in &o.counters {
        s.push_str(&format!("{k}={v},"));
    }
    s
}

/// Execute with panic containment: a panic that escapes a scenario's own handling is a harness
/// error (scenarios catch the panics they want to observe themselves).
pub fn guarded_execute(s: &dyn Scenario, params: &Value, want_sample: bool) -> Outcome {
    let r = std::panic::catch_unwind(std::panic::AssertUnwindSafe(|| s.execute(params, want_sample)));
    match r {
        Ok(o) => o,
        Err(p) => {
            let msg = if let Some(s) = p.downcast_ref::<&str>() {
                s.to_string()
            } else if let Some(s) = p.downcast_ref::<String>() {
                s.clone()
            } else {
                "<non-string panic>".into()
            };
            let first = mcmc_sim::sim::take_last_panic().unwrap_or_default();
            let mut o = Outcome::default();
            // A panic raised inside the library under test (location under /repo/src) in a scenario that
            // feeds it only inputs of the property's range and expects no panic is the library's failure,
            // not the harness's: a violation (no claimed property admits a panic on valid input). A panic
            // raised anywhere else (harness, seams, dependencies called by the harness) is a harness error.
            let loc = first.rsplit(" @ ").next().unwrap_or("").to_string();
            if loc.starts_with("/repo/src/") && !msg.contains("HARNESS-ERROR") {
                o.nontrivial = true;
                o.hash = str_hash(&params.to_string());
                o.violate("panic", &format!("{}:library-panic@{}", s.name(), loc), format!("the library panicked in scenario {}: {}", s.name(), msg));
            } else {
                o.harness_error = Some(format!("uncaught panic in scenario {}: {} [{}]", s.name(), msg, first));
            }
            o
        }
    }
}

/// The work of one child process: runs idx ≡ k (mod n) of every scenario.
pub fn child_main(prop: &PropertyDef, tier: Tier, seed: u64, k: u64, n: u64) -> Agg {
    child_run(prop, tier, seed, k, n, None, true, 0).0
}

/// The child's sequence of runs, optionally only a window of it that ends with the run `stop` =
/// (scenario, idx): with `scenarios_before` the scenarios listed before the stop scenario are run
/// in full, and within the stop scenario the runs from `from_idx` on. Returns the outcome of the
/// stop run. This is what a process-history replay re-executes: a violation that needs state left
/// behind in the process by earlier runs (a static, a thread-local, a cache inside the library)
/// does not show when its run is executed alone in a fresh process, but does at the end of the
/// same sequence of runs.
pub fn child_run(prop: &PropertyDef, tier: Tier, seed: u64, k: u64, n: u64, stop: Option<(&str, u64)>, scenarios_before: bool, from_idx: u64) -> (Agg, Option<Outcome>) {
    let mut agg = Agg::default();
    let t_start = Instant::now();
    // under a broken tree runs can be very expensive (a hang costs the whole step bound): once
    // violations are in hand, stop exploring well before the parent's wall-clock safety limit
    let soft_limit_s = tier.pick(900, 7200) / 3;
    for s in &prop.scenarios {
        let total = s.runs(tier);
        let mut idx = k;
        if let Some((sn, _)) = stop {
            if s.name() != sn && !scenarios_before {
                continue;
            }
            if s.name() == sn {
                while idx < from_idx {
                    idx += n;
                }
            }
        }
        let viol_before = agg.violations.len();
        while idx < total {
            // enough failing runs collected in this scenario: go on with the next one (bounds the time spent
            // under a broken tree; later scenarios may hold the violations that replay in a fresh process)
            let is_stop = stop.map(|(sn, si)| s.name() == sn && idx == si).unwrap_or(false);
            let in_stop_scenario = stop.is_some() && stop.unwrap().0 == s.name();
            let hangs = agg.violations[viol_before..].iter().filter(|v| v.3.class.starts_with("hang") || v.3.class == "deadlock").count();
            if (agg.violations.len() >= viol_before + 24 || hangs >= 4) && !in_stop_scenario {
                agg.counters.insert("stopped_early_after_24_violating_runs".into(), 1);
                break;
            }
            if stop.is_none() && !agg.violations.is_empty() && t_start.elapsed().as_secs() > soft_limit_s {
                agg.counters.insert("stopped_early_soft_time_limit".into(), 1);
                return (agg, None);
            }
            let mut g = Gen::new(run_seed(seed, prop.id, s.name(), idx));
            let params = s.generate(&mut g, tier, idx);
            let want_sample = idx < 2;
            let o = guarded_execute(s.as_ref(), &params, want_sample);
            // determinism re-sample: 1 in 64 runs is executed twice and must agree
            if (idx % 64 == 1 || (tier == Tier::Quick && idx % 16 == 1)) && s.recheckable(&params) {
                let o2 = guarded_execute(s.as_ref(), &params, false);
                agg.determinism_rechecks += 1;
                if outcome_fingerprint(&o) != outcome_fingerprint(&o2) {
                    agg.harness_errors.push(format!(
                        "non-deterministic run: scenario {} idx {} params {} :: {} vs {}",
                        s.name(),
                        idx,
                        params,
                        outcome_fingerprint(&o),
                        outcome_fingerprint(&o2)
                    ));
                }
            }
            if s.recheckable(&params) {
                agg.outcome_digest = agg.outcome_digest.wrapping_add(mix(mix(str_hash(s.name()), idx), str_hash(&outcome_fingerprint(&o))));
                agg.digest_runs += 1;
            }
            agg.evaluations += 1;
            let e = agg.per_scenario.entry(s.name().to_string()).or_insert((0, 0));
            e.0 += 1;
            if o.nontrivial {
                agg.nontrivial += 1;
                e.1 += 1;
                agg.hashes.insert(mix(o.hash, str_hash(s.name())));
            }
            for (kk, vv) in &o.counters {
                if kk == "schedule_len" {
                    continue;
                }
                *agg.counters.entry(kk.clone()).or_insert(0) += *vv;
            }
            agg.sim_time_ns += o.sim_time_ns as u128;
            agg.work += o.work;
            if let Some(e) = &o.harness_error {
                agg.harness_errors.push(e.clone());
            }
            for v in &o.violations {
                if agg.violations.len() < viol_before + 24 {
                    agg.violations.push((s.name().to_string(), idx, params.clone(), v.clone()));
                }
            }
            *agg.counters.entry("max_schedule_len".into()).or_insert(0) = (*agg.counters.get("max_schedule_len").unwrap_or(&0)).max(o.counters.get("schedule_len").copied().unwrap_or(0));
            if is_stop {
                return (agg, Some(o));
            }
            if let Some(sm) = o.sample {
                if agg.samples.len() < 4 {
                    agg.samples.push(json!({"scenario": s.name(), "idx": idx, "params": params, "run": sm}));
                }
            }
            idx += n;
        }
        if let Some((sn, _)) = stop {
            if s.name() == sn {
                break;
            }
        }
    }
    (agg, None)
}

// ---------------------------------------------------------------------------------------------
// parent
// ---------------------------------------------------------------------------------------------
pub fn verif_dir() -> PathBuf {
    std::env::var("VERIF_DIR").map(PathBuf::from).unwrap_or_else(|_| PathBuf::from("/verif"))
}

fn find_scenario<'a>(prop: &'a PropertyDef, name: &str) -> Option<&'a dyn Scenario> {
    prop.scenarios.iter().find(|s| s.name() == name).map(|b| b.as_ref())
}

/// Greedy shrinking: keep a candidate if the same violation class recurs. Bounded by wall time.
pub fn shrink(s: &dyn Scenario, params: &Value, class: &str, budget_s: f64) -> (Value, Violation) {
    let t0 = Instant::now();
    let mut cur = params.clone();
    let first = guarded_execute(s, &cur, false);
    let mut cur_v = first
        .violations
        .iter()
        .find(|v| v.class == class)
        .cloned()
        .unwrap_or_else(|| Violation::new(class, "", "not reproduced in parent".into()));
    let mut progress = true;
    while progress && t0.elapsed().as_secs_f64() < budget_s {
        progress = false;
        for cand in s.shrink(&cur) {
            if t0.elapsed().as_secs_f64() >= budget_s {
                break;
            }
            if cand == cur {
                continue;
            }
            let o = guarded_execute(s, &cand, false);
            if o.harness_error.is_some() {
                continue;
            }
            if let Some(v) = o.violations.iter().find(|v| v.class == class) {
                cur = cand;
                cur_v = v.clone();
                progress = true;
                break;
            }
        }
    }
    (cur, cur_v)
}

/// For a failing simulated run: record its schedule, make the replay file carry it explicitly
/// (`sim.replay_tasks`), and greedily remove context switches while the same violation class
/// recurs. Returns the parameters with the simplified schedule, or None when the scenario has no
/// scheduler or the explicit schedule does not reproduce the class.
pub fn minimise_schedule(s: &dyn Scenario, params: &Value, class: &str, budget_s: f64) -> Option<Value> {
    let sim = params.get("sim")?;
    if sim.get("replay_tasks").is_some() {
        return None;
    }
    let t0 = Instant::now();
    let o = guarded_execute(s, params, true);
    if !o.violations.iter().any(|v| v.class == class) {
        if std::env::var("VERIF_VERBOSE").is_ok() {
            eprintln!("[minimise] class {class} not reproduced: {:?} {:?}", o.violations.iter().map(|v| v.class.clone()).collect::<Vec<_>>(), o.harness_error);
        }
        return None;
    }
    let sched = o.schedule?;
    if std::env::var("VERIF_VERBOSE").is_ok() {
        eprintln!("[minimise] recorded schedule of {} decisions", sched.len());
    }
    let with_tasks = |tasks: &[u32]| -> Value { with(params, "sim", with(sim, "replay_tasks", json!(tasks))) };
    let reproduces = |tasks: &[u32]| -> bool {
        let o = guarded_execute(s, &with_tasks(tasks), false);
        o.harness_error.is_none() && o.violations.iter().any(|v| v.class == class)
    };
    if !reproduces(&sched) {
        return None;
    }
    let mut used = 0usize;
    let simplified = mcmc_sim::sim::simplify_schedule(&sched, 400, |cand| {
        used += 1;
        if t0.elapsed().as_secs_f64() > budget_s {
            return false;
        }
        reproduces(cand)
    });
    let _ = used;
    // collapse a constant tail (the replay scheduler keeps the current task anyway)
    let mut tasks = simplified;
    while tasks.len() >= 2 && tasks[tasks.len() - 1] == tasks[tasks.len() - 2] {
        tasks.pop();
    }
    if !reproduces(&tasks) {
        return Some(with_tasks(&sched));
    }
    Some(with_tasks(&tasks))
}

pub fn write_replay(prop: &str, scen: &str, seed: u64, idx: u64, params: &Value, v: &Violation, src_fp: &str) -> PathBuf {
    write_replay_h(prop, scen, seed, idx, params, v, src_fp, None)
}

pub fn write_replay_h(prop: &str, scen: &str, seed: u64, idx: u64, params: &Value, v: &Violation, src_fp: &str, history: Option<Value>) -> PathBuf {
    let dir = verif_dir().join("replays");
    let _ = std::fs::create_dir_all(&dir);
    let path = dir.join(format!("{prop}-{scen}-{seed}-{idx}-{:08x}{}.json", str_hash(&v.class) as u32, if history.is_some() { "-history" } else { "" }));
    let mut doc = json!({
        "property": prop,
        "scenario": scen,
        "verif_seed": seed,
        "run_index": idx,
        "params": params,
        "violation": v.to_json(),
        "source_fingerprint": src_fp,
        "replay": format!("bin/check --replay {}", path.display()),
    });
    if let Some(h) = history {
        doc["history"] = h;
    }
    let mut f = std::fs::File::create(&path).expect("HARNESS-ERROR: cannot write replay file");
    f.write_all(serde_json::to_string_pretty(&doc).unwrap().as_bytes()).unwrap();
    path
}

/// `--replay <file>`: re-execute exactly that run. Exit 1 + VIOLATION line if the same class
/// reproduces, 2 if it does not.
pub fn replay_main(props: &[PropertyDef], file: &str) -> i32 {
    let Ok(text) = std::fs::read_to_string(file) else {
        eprintln!("HARNESS-ERROR: cannot read replay file {file}");
        return 2;
    };
    let Ok(doc) = serde_json::from_str::<Value>(&text) else {
        eprintln!("HARNESS-ERROR: replay file is not JSON");
        return 2;
    };
    let pid = doc["property"].as_str().unwrap_or("");
    let Some(prop) = props.iter().find(|p| p.id == pid) else {
        eprintln!("HARNESS-ERROR: unknown property {pid}");
        return 2;
    };
    let Some(s) = find_scenario(prop, doc["scenario"].as_str().unwrap_or("")) else {
        eprintln!("HARNESS-ERROR: unknown scenario");
        return 2;
    };
    let want = Violation::from_json(&doc["violation"]);
    let o = if doc["history"].is_object() {
        // process-history replay: the child's sequence of runs (or the recorded window of it) ending with this run
        let h = &doc["history"];
        let tier = if h["tier"].as_str() == Some("thorough") { Tier::Thorough } else { Tier::Quick };
        let (k, n) = (h["k"].as_u64().unwrap_or(0), h["n"].as_u64().unwrap_or(1).max(1));
        let stop_idx = doc["run_index"].as_u64().unwrap_or(0);
        let seed = doc["verif_seed"].as_u64().unwrap_or(0);
        println!("process-history replay: runs {}.. (step {n}) of scenario {}{} up to run {stop_idx}", h["from_idx"].as_u64().unwrap_or(0), s.name(), if h["scenarios_before"].as_bool().unwrap_or(false) { " after the scenarios listed before it" } else { "" });
        match child_run(prop, tier, seed, k, n, Some((s.name(), stop_idx)), h["scenarios_before"].as_bool().unwrap_or(false), h["from_idx"].as_u64().unwrap_or(0)).1 {
            Some(o) => o,
            None => {
                eprintln!("HARNESS-ERROR: the recorded history does not reach run {stop_idx}");
                return 2;
            }
        }
    } else {
        guarded_execute(s, &doc["params"], true)
    };
    if let Some(e) = &o.harness_error {
        eprintln!("HARNESS-ERROR: {e}");
        return 2;
    }
    if let Some(v) = o.violations.iter().find(|v| v.class == want.class) {
        println!("replayed: class={} key={} detail={}", v.class, v.key, v.detail);
        if let Some(sm) = &o.sample {
            println!("run: {}", sm);
        }
        println!("VIOLATION property={} replay={}", pid, file);
        1
    } else {
        eprintln!(
            "HARNESS-ERROR: replay did not reproduce class {} (got {:?})",
            want.class,
            o.violations.iter().map(|v| v.class.clone()).collect::<Vec<_>>()
        );
        2
    }
}

pub struct ParentOpts {
    pub tier: Tier,
    pub seed: u64,
    pub workers: u64,
    pub src_fp: String,
    pub wall_limit_s: u64,
}

pub fn parent_main(prop: &PropertyDef, all_props_bin: &Path, opts: &ParentOpts) -> i32 {
    let t0 = Instant::now();
    println!("VERIF_SEED={} property={} tier={} workers={} source={}", opts.seed, prop.id, opts.tier.name(), opts.workers, opts.src_fp);
    let mut children = vec![];
    let logdir = verif_dir().join("target").join("child-logs");
    let _ = std::fs::create_dir_all(&logdir);
    for k in 0..opts.workers {
        let errlog = std::fs::File::create(logdir.join(format!("{}-{}.log", prop.id, k)))
            .map(std::process::Stdio::from)
            .unwrap_or_else(|_| std::process::Stdio::null());
        let child = std::process::Command::new(all_props_bin)
            .arg("--child")
            .arg(prop.id)
            .arg(opts.tier.name())
            .arg(opts.seed.to_string())
            .arg(k.to_string())
            .arg(opts.workers.to_string())
            .stdout(std::process::Stdio::piped())
            .stderr(errlog)
            .spawn();
        match child {
            Ok(c) => children.push((k, c)),
            Err(e) => {
                eprintln!("HARNESS-ERROR: cannot spawn child: {e}");
                return 2;
            }
        }
    }
    // reader threads (stdout can exceed the pipe buffer)
    let mut handles = vec![];
    for (k, mut c) in children {
        let limit = opts.wall_limit_s;
        handles.push(std::thread::spawn(move || {
            use std::io::Read;
            let mut out = c.stdout.take().unwrap();
            let reader = std::thread::spawn(move || {
                let mut s = String::new();
                let _ = out.read_to_string(&mut s);
                s
            });
            let start = Instant::now();
            let status = loop {
                match c.try_wait() {
                    Ok(Some(st)) => break Some(st),
                    Ok(None) => {
                        if start.elapsed().as_secs() > limit {
                            let _ = c.kill();
                            let _ = c.wait();
                            break None;
                        }
                        std::thread::sleep(std::time::Duration::from_millis(20));
                    }
                    Err(_) => break None,
                }
            };
            let text = reader.join().unwrap_or_default();
            (k, status, text)
        }));
    }
    let mut agg = Agg::default();
    let mut hard_errors = vec![];
    for h in handles {
        let (k, status, text) = h.join().unwrap();
        match status {
            None => hard_errors.push(format!("child {k} exceeded the wall-clock safety limit or could not be waited for")),
            Some(st) if !st.success() => hard_errors.push(format!("child {k} ended abnormally: {st:?}")),
            Some(_) => {}
        }
        let mut got = false;
        for line in text.lines() {
            if let Some(js) = line.strip_prefix("CHILD-RESULT ") {
                if let Ok(v) = serde_json::from_str::<Value>(js) {
                    agg.merge_json(&v);
                    got = true;
                }
            }
        }
        if !got {
            hard_errors.push(format!("child {k} produced no result"));
        }
    }
    for e in &agg.harness_errors {
        hard_errors.push(e.clone());
    }

    // ---- violations: known findings, shrinking, replay files --------------------------------
    let known = load_known_findings(&verif_dir().join("known_findings.txt"));
    let mut known_hit: BTreeMap<String, String> = BTreeMap::new();
    let mut new_classes: BTreeMap<(String, String), Vec<(u64, Value, Violation)>> = BTreeMap::new();
    agg.violations.sort_by(|a, b| (a.0.clone(), a.1).cmp(&(b.0.clone(), b.1)));
    for (scen, idx, params, v) in &agg.violations {
        if let Some(kf) = known.iter().find(|kf| kf.property == prop.id && kf.key == v.key) {
            known_hit.entry(kf.key.clone()).or_insert_with(|| kf.text.clone());
        } else {
            let e = new_classes.entry((scen.clone(), v.class.clone() + "#" + &v.key)).or_default();
            if e.len() < 6 && e.iter().all(|c| c.0 != *idx) {
                e.push((*idx, params.clone(), v.clone()));
            }
        }
    }
    for (key, text) in &known_hit {
        println!("KNOWN-FINDING: property={} key={} {}", prop.id, key, text);
    }
    let mut violation_lines = vec![];
    let mut n_reported = 0;
    let fresh = |path: &Path| -> Option<i32> {
        std::process::Command::new(all_props_bin).arg("--replay").arg(path).stdout(std::process::Stdio::null()).stderr(std::process::Stdio::null()).status().ok().and_then(|s| s.code())
    };
    for ((scen, _), cands) in &new_classes {
        if n_reported >= 5 {
            break;
        }
        n_reported += 1;
        let Some(s) = find_scenario(prop, scen) else { continue };
        // (1) a candidate run of this class that reproduces when executed alone in a fresh process
        let mut done = false;
        for (idx, params, v) in cands {
            let raw = write_replay(prop.id, scen, opts.seed, *idx, params, v, &opts.src_fp);
            if fresh(&raw) != Some(1) {
                let _ = std::fs::remove_file(&raw);
                continue;
            }
            let (small, small_v) = shrink(s, params, &v.class, 45.0);
            let (mut rp, rv) = if small_v.detail == "not reproduced in parent" { (params.clone(), v.clone()) } else { (small, small_v) };
            // second stage for scheduler-driven runs: store the explicit, simplified schedule
            if let Some(min) = minimise_schedule(s, &rp, &rv.class, 20.0) {
                rp = min;
            }
            let path = write_replay(prop.id, scen, opts.seed, *idx, &rp, &rv, &opts.src_fp);
            // replay the minimised file in a fresh process before reporting; keep the unminimised one otherwise
            let (path, rv) = if fresh(&path) == Some(1) { (path, rv) } else { (write_replay(prop.id, scen, opts.seed, *idx, params, v, &opts.src_fp), v.clone()) };
            println!("violation: scenario={} class={} key={} detail={}", scen, rv.class, rv.key, rv.detail);
            violation_lines.push(format!("VIOLATION property={} replay={}", prop.id, path.display()));
            done = true;
            break;
        }
        if done {
            continue;
        }
        // (2) no run of this class reproduces alone: the violation needs state that earlier runs left
        // behind in the process. Replay the child's own sequence of runs up to the first candidate:
        // shortest window first (the k runs just before it, k = 1, 2, 4, ... within the scenario),
        // at last the whole history including the scenarios run before.
        let (idx, params, v) = &cands[0];
        let (k, n) = (idx % opts.workers, opts.workers);
        let mut windows: Vec<(bool, u64)> = vec![];
        let mut back = 1u64;
        while back * n <= *idx && back <= 4096 {
            windows.push((false, idx - back * n));
            back *= 2;
        }
        windows.push((false, 0));
        windows.push((true, 0));
        let mut found = None;
        for (before, from) in windows {
            let h = json!({"tier": opts.tier.name(), "k": k, "n": n, "from_idx": from, "scenarios_before": before,
                "note": "this violation does not show when its run is executed alone in a fresh process: it needs state left behind in the process by the earlier runs of this window (hidden state inside the library)"});
            let path = write_replay_h(prop.id, scen, opts.seed, *idx, params, v, &opts.src_fp, Some(h));
            if fresh(&path) == Some(1) {
                found = Some((path, if before { "all".to_string() } else { ((idx - from) / n).to_string() }));
                break;
            }
        }
        match found {
            Some((path, runs_before)) => {
                println!("violation: scenario={} class={} key={} detail=[needs the {} runs executed before it in the same process] {}", scen, v.class, v.key, runs_before, v.detail);
                violation_lines.push(format!("VIOLATION property={} replay={}", prop.id, path.display()));
            }
            None => hard_errors.push(format!("violation of class {} (scenario {scen}, idx {idx}) reproduces neither alone nor at the end of its process history in a fresh process", v.class)),
        }
    }

    // ---- evidence ------------------------------------------------------------------------------
    let wall = t0.elapsed().as_secs_f64();
    let mut comps = Map::new();
    let mut rules = vec![];
    for s in &prop.scenarios {
        comps.insert(s.name().to_string(), s.components());
        rules.push(format!("[{}] {}", s.name(), s.rule()));
    }
    let fault_counters: BTreeMap<&String, &u64> = agg.counters.iter().filter(|(k, _)| k.starts_with("fault_")).collect();
    let probe_counters: BTreeMap<&String, &u64> = agg.counters.iter().filter(|(k, _)| !k.starts_with("fault_")).collect();
    let stuck: Vec<&String> = agg.counters.iter().filter(|(k, v)| k.starts_with("probe_") && **v == 0).map(|(k, _)| k).collect();
    let evidence = json!({
        "property_id": prop.id,
        "tier": opts.tier.name(),
        "seed": opts.seed,
        "level": prop.level,
        "coverage": {
            "evaluations": agg.evaluations,
            "distinct_nontrivial": agg.hashes.len(),
            "rule": rules.join(" || "),
            "samples": agg.samples,
            "nontrivial_runs": agg.nontrivial,
            "per_scenario_evaluations_nontrivial": agg.per_scenario.iter().map(|(k,(e,n))| (k.clone(), json!({"evaluations": e, "nontrivial": n}))).collect::<Map<String,Value>>(),
            "work_units": agg.work,
            "runs_per_hour": if wall > 0.0 { (agg.evaluations as f64 / wall * 3600.0) as u64 } else { 0 },
            "simulated_time_s": (agg.sim_time_ns as f64) / 1e9,
            "faults_fired": fault_counters,
            "reach_probes_and_counters": probe_counters,
            "probes_stuck_at_zero": stuck,
            "determinism_rechecks": agg.determinism_rechecks,
            "outcome_digest_of_repeatable_runs": format!("{:x}", agg.outcome_digest),
            "runs_in_outcome_digest": agg.digest_runs,
            "known_findings_hit": known_hit.keys().collect::<Vec<_>>(),
            "components": comps,
            "profile": "release, opt-level=2 (dependencies 3), overflow-checks=on, debug-assertions=on for mini-mcmc and the harness, panic=unwind",
            "source_fingerprint": opts.src_fp,
            "exhaustive": false,
        },
        "assumptions": prop.assumptions,
        "wall_s": wall,
        "violations": violation_lines.len(),
    });
    let edir = verif_dir().join("evidence");
    let _ = std::fs::create_dir_all(&edir);
    let epath = edir.join(format!("{}.json", prop.id));
    // (bin/determinism.sh repeats checks with other seeds / worker counts and must not replace the evidence)
    if std::env::var("VERIF_NO_EVIDENCE").is_err() {
        if let Err(e) = std::fs::write(&epath, serde_json::to_string_pretty(&evidence).unwrap()) {
            hard_errors.push(format!("cannot write evidence: {e}"));
        }
    }
    println!("digest: runs={} outcome_digest={:x}", agg.digest_runs, agg.outcome_digest);
    println!(
        "summary: evaluations={} distinct_nontrivial={} work={} wall={:.1}s known_findings={} violations={} harness_errors={}",
        agg.evaluations,
        agg.hashes.len(),
        agg.work,
        wall,
        known_hit.len(),
        violation_lines.len(),
        hard_errors.len()
    );
    for l in &violation_lines {
        println!("{l}");
    }
    if !violation_lines.is_empty() {
        for e in hard_errors.iter().take(3) {
            eprintln!("(also) HARNESS-ERROR: {}", &e[..e.len().min(600)]);
        }
        return 1;
    }
    if !hard_errors.is_empty() {
        for e in hard_errors.iter().take(10) {
            eprintln!("HARNESS-ERROR: {e}");
        }
        return 2;
    }
    0
}
