#![allow(dead_code)]
//! vcheck - deterministic-simulation checks for mini-mcmc.
//!
//!   vcheck <PROPERTY> <quick|thorough>      run the check (parent: forks worker processes)
//!   vcheck --replay <file>                  re-execute exactly one recorded run
//!   vcheck --child <PROPERTY> <tier> <seed> <k> <n>   (internal)

mod core;
mod craft;
mod gtargets;
mod props;
mod refmodels;
mod stubs;
mod zoo;

use crate::core::*;

fn main() {
    mcmc_sim::sim::install_quiet_panic_hook();
    let args: Vec<String> = std::env::args().collect();
    if std::env::var("VERIF_DEBUG_TARGETS").is_ok() { debug_targets(); return; }
    if let Ok(f) = std::env::var("VERIF_DEBUG_ROWS") { debug_rows(&f); return; }
    craft::self_check();
    let props = props::all();
    if args.len() >= 3 && args[1] == "--minimise" {
        // debugging aid: run the schedule-minimisation stage on a replay file and print the result
        let doc: serde_json::Value = serde_json::from_str(&std::fs::read_to_string(&args[2]).unwrap()).unwrap();
        let prop = props.iter().find(|p| p.id == doc["property"].as_str().unwrap()).unwrap();
        let s = prop.scenarios.iter().find(|s| s.name() == doc["scenario"].as_str().unwrap()).unwrap();
        let r = minimise_schedule(s.as_ref(), &doc["params"], doc["violation"]["class"].as_str().unwrap(), 30.0);
        println!("{}", r.map(|v| v["sim"]["replay_tasks"].to_string()).unwrap_or("None".into()));
        return;
    }
    if args.len() >= 3 && args[1] == "--replay" {
        std::process::exit(replay_main(&props, &args[2]));
    }
    if args.len() >= 7 && args[1] == "--child" {
        let Some(prop) = props.iter().find(|p| p.id == args[2]) else {
            eprintln!("HARNESS-ERROR: unknown property {}", args[2]);
            std::process::exit(2);
        };
        let tier = if args[3] == "thorough" { Tier::Thorough } else { Tier::Quick };
        let seed: u64 = args[4].parse().expect("seed");
        let k: u64 = args[5].parse().expect("k");
        let n: u64 = args[6].parse().expect("n");
        let agg = child_main(prop, tier, seed, k, n);
        println!("CHILD-RESULT {}", agg.to_json());
        std::process::exit(0);
    }
    if args.len() >= 3 {
        let Some(prop) = props.iter().find(|p| p.id == args[1]) else {
            eprintln!("HARNESS-ERROR: unknown property {}", args[1]);
            std::process::exit(2);
        };
        // the command line decides the tier; VERIF_TIER only when the argument is neither
        let tier = match args[2].as_str() {
            "thorough" => Tier::Thorough,
            "quick" => Tier::Quick,
            _ => match std::env::var("VERIF_TIER").ok().as_deref() {
                Some("thorough") => Tier::Thorough,
                _ => Tier::Quick,
            },
        };
        let seed = std::env::var("VERIF_SEED").ok().and_then(|s| s.trim().parse::<u64>().ok()).unwrap_or(DEFAULT_SEED);
        let workers = std::env::var("VERIF_WORKERS").ok().and_then(|s| s.parse::<u64>().ok()).unwrap_or(16).max(1);
        let src_fp = std::env::var("VERIF_SRC_HASH").unwrap_or_else(|_| "unknown".into());
        let opts = ParentOpts { tier, seed, workers, src_fp, wall_limit_s: tier.pick(900, 7200) };
        let exe = std::env::current_exe().expect("current_exe");
        std::process::exit(parent_main(prop, &exe, &opts));
    }
    eprintln!("usage: vcheck <PROPERTY> <quick|thorough> | --replay <file>");
    std::process::exit(2);
}

#[allow(dead_code)]
pub fn debug_targets() {
    use burn::prelude::*;
    use crate::gtargets::*;
    use crate::zoo::BF64;
    let mut g = crate::core::Gen::new(5);
    for kind in [GKind::StudentT, GKind::Quartic, GKind::Funnel, GKind::Gauss] {
        let mut t = if kind == GKind::Gauss { GTarget::gauss(&mut g, 3, 4.0) } else { GTarget::new(kind.clone(), 3) };
        t.nu = 2.7182818;
        let x = vec![0.0720297, 1.0555135, 4.0253916];
        let xt = Tensor::<BF64, 2>::from_data(TensorData::new(x.clone(), [1, 3]), &Default::default());
        let lp = t.batch(xt).to_data().convert::<f64>().to_vec::<f64>().unwrap()[0];
        println!("{:?}: burn {:.17} analytic {:.17} rel {:e}", kind, lp, t.logp(&x), (lp - t.logp(&x)).abs() / t.logp(&x).abs());
        let xt = Tensor::<BF64, 2>::from_data(TensorData::new(x.clone(), [1, 3]), &Default::default()).require_grad();
        let l = t.batch(xt.clone());
        let gr = xt.grad(&l.backward()).unwrap().to_data().convert::<f64>().to_vec::<f64>().unwrap();
        println!("   grad burn {:?} analytic {:?}", gr, t.grad(&x));
    }
}

#[allow(dead_code)]
pub fn debug_rows(file: &str) {
    use crate::gtargets::*;
    use crate::zoo::BF32;
    use burn::prelude::*;
    use mini_mcmc::hmc::HMC;
    let doc: serde_json::Value = serde_json::from_str(&std::fs::read_to_string(file).unwrap()).unwrap();
    let p = &doc["params"];
    let mut g = crate::core::Gen::new(crate::core::pu(p, "gseed"));
    let target = gen_smooth(&mut g, false);
    let d = target.d;
    let nc = crate::core::pus(p, "n_chains");
    let scale0 = crate::core::pf(p, "start_scale");
    let init: Vec<Vec<f32>> = (0..nc).map(|_| (0..d).map(|_| (g.normal() * scale0) as f32).collect()).collect();
    println!("target {:?} d={} eps={} L={}", target.kind, d, crate::core::pf(p, "eps"), crate::core::pus(p, "L"));
    let victim = (crate::core::pu(p, "hseed") % nc as u64) as usize;
    let run = |init: Vec<Vec<f32>>, l: usize| -> Vec<u32> {
        let mut h = HMC::<f32, BF32, GTarget>::new(target.clone(), init, crate::core::pf(p, "eps") as f32, l).set_seed(crate::core::pu(p, "hseed"));
        h.step();
        h.positions.to_data().to_vec::<f32>().unwrap().iter().map(|x| x.to_bits()).collect()
    };
    {
        // which operation is not repeatable?
        let flat: Vec<f32> = init.iter().flatten().cloned().collect();
        let mk = || Tensor::<BF32, 2>::from_data(TensorData::new(flat.clone(), [nc, d]), &Default::default());
        let lp = |t: Tensor<BF32, 2>| -> Vec<u32> { target.batch(t).to_data().to_vec::<f32>().unwrap().iter().map(|x| x.to_bits()).collect() };
        let gr = || -> Vec<u32> {
            let x = mk().require_grad();
            let l = target.batch(x.clone());
            x.grad(&l.backward()).unwrap().to_data().to_vec::<f32>().unwrap().iter().map(|v| v.to_bits()).collect()
        };
        let gtest = |name: &str, f: &dyn Fn(Tensor<BF32, 2>) -> Tensor<BF32, 1>| {
            let one = || -> Vec<u32> {
                let x = mk().require_grad();
                let l = f(x.clone());
                x.grad(&l.backward()).unwrap().to_data().to_vec::<f32>().unwrap().iter().map(|v| v.to_bits()).collect()
            };
            let rs: Vec<Vec<u32>> = (0..6).map(|_| one()).collect();
            let distinct: std::collections::BTreeSet<Vec<u32>> = rs.iter().cloned().collect();
            println!("  grad of {name}: {} distinct results in 6 evaluations", distinct.len());
        };
        gtest("sum x^2 (powi)", &|x| x.powi_scalar(2).sum_dim(1).squeeze::<1>(1));
        gtest("sum x*x", &|x| (x.clone() * x).sum_dim(1).squeeze::<1>(1));
        gtest("log(1 + sum x*x)", &|x| (x.clone() * x).sum_dim(1).squeeze::<1>(1).add_scalar(1.0).log());
        gtest("log(1 + sum powi)", &|x| x.powi_scalar(2).sum_dim(1).squeeze::<1>(1).add_scalar(1.0).log());
        gtest("c*log(1 + a*sum powi)", &|x| x.powi_scalar(2).sum_dim(1).squeeze::<1>(1).mul_scalar(0.37).add_scalar(1.0).log().mul_scalar(-2.0));
        gtest("quartic", &|x| (x.clone().powi_scalar(4).mul_scalar(-0.25) - x.powi_scalar(2).mul_scalar(0.5)).sum_dim(1).squeeze::<1>(1));
        let (l1, l2) = (lp(mk()), lp(mk()));
        let (g1, g2) = (gr(), gr());
        println!("logp repeatable: {}; gradient repeatable: {}", l1 == l2, g1 == g2);
        use rand::{Rng, SeedableRng};
        let mut r1 = rand::rngs::SmallRng::seed_from_u64(5);
        let mut r2 = rand::rngs::SmallRng::seed_from_u64(5);
        let a: Vec<f32> = (0..64).map(|_| r1.sample(rand_distr::StandardNormal)).collect();
        let b: Vec<f32> = (0..64).map(|_| r2.sample(rand_distr::StandardNormal)).collect();
        println!("normal draws repeatable: {}", a == b);
        let mut h1 = HMC::<f32, BF32, GTarget>::new(target.clone(), init.clone(), 0.1, 1).set_seed(9);
        let mut h2 = HMC::<f32, BF32, GTarget>::new(target.clone(), init.clone(), 0.1, 1).set_seed(9);
        mcmc_sim::trace::start();
        h1.step();
        let e1 = mcmc_sim::trace::stop();
        mcmc_sim::trace::start();
        h2.step();
        let e2 = mcmc_sim::trace::stop();
        for (x, y) in e1.iter().zip(e2.iter()) {
            let same = x.vals.iter().zip(y.vals.iter()).all(|(p, q)| p.to_bits() == q.to_bits());
            println!("  trace {} repeatable: {}", x.role, same);
        }
    }
    for l in [1usize, 2, 10] {
        let a = run(init.clone(), l);
        let b = run(init.clone(), l);
        let mut i2 = init.clone();
        i2[victim][0] += 0.37;
        let c = run(i2, l);
        let same_ab = a == b;
        let diff_rows: Vec<usize> = (0..nc).filter(|r| *r != victim && a[r * d..(r + 1) * d] != c[r * d..(r + 1) * d]).collect();
        println!("L={l}: identical inputs bitwise equal: {same_ab}; rows changed by perturbing row {victim}: {:?}", diff_rows);
        for r in diff_rows.iter().take(3) {
            println!("   row {r}: {} vs {}", f32::from_bits(a[r * d]), f32::from_bits(c[r * d]));
        }
    }
}
