#![allow(dead_code)]
//! vcheck - deterministic-simulation checks for mini-mcmc.
//!
//!   vcheck <PROPERTY> <quick|thorough>      run the check (parent: forks worker processes)
//!   vcheck --replay <file>                  re-execute exactly one recorded run
//!   vcheck --child <PROPERTY> <tier> <seed> <k> <n>   (internal)

mod core;
mod craft;
mod props;
mod refmodels;
mod stubs;
mod zoo;

use crate::core::*;

fn main() {
    mcmc_sim::sim::install_quiet_panic_hook();
    let args: Vec<String> = std::env::args().collect();
    craft::self_check();
    let props = props::all();
    if args.len() >= 3 && args[1] == "--replay" {
        std::process::exit(replay_main(&props, &args[2]));
    }
    if args.len() >= 7 && args[1] == "--child" {
        let Some(prop) = props.iter().find(|p| p.id == args[2]) else {
            eprintln!("HARNESS-ERROR: unknown property {}", args[2]);
            std::process::exit(2);
        };
        let tier = if args[3] == "thorough" { Tier::Thorough } else { Tier::Quick };
        let seed: u64 = args[4].parse().expect("seed");
        let k: u64 = args[5].parse().expect("k");
        let n: u64 = args[6].parse().expect("n");
        let agg = child_main(prop, tier, seed, k, n);
        println!("CHILD-RESULT {}", agg.to_json());
        std::process::exit(0);
    }
    if args.len() >= 3 {
        let Some(prop) = props.iter().find(|p| p.id == args[1]) else {
            eprintln!("HARNESS-ERROR: unknown property {}", args[1]);
            std::process::exit(2);
        };
        // the command line decides the tier; VERIF_TIER only when the argument is neither
        let tier = match args[2].as_str() {
            "thorough" => Tier::Thorough,
            "quick" => Tier::Quick,
            _ => match std::env::var("VERIF_TIER").ok().as_deref() {
                Some("thorough") => Tier::Thorough,
                _ => Tier::Quick,
            },
        };
        let seed = std::env::var("VERIF_SEED").ok().and_then(|s| s.trim().parse::<u64>().ok()).unwrap_or(DEFAULT_SEED);
        let workers = std::env::var("VERIF_WORKERS").ok().and_then(|s| s.parse::<u64>().ok()).unwrap_or(16).max(1);
        let src_fp = std::env::var("VERIF_SRC_HASH").unwrap_or_else(|_| "unknown".into());
        let opts = ParentOpts { tier, seed, workers, src_fp, wall_limit_s: tier.pick(900, 7200) };
        let exe = std::env::current_exe().expect("current_exe");
        std::process::exit(parent_main(prop, &exe, &opts));
    }
    eprintln!("usage: vcheck <PROPERTY> <quick|thorough> | --replay <file>");
    std::process::exit(2);
}
