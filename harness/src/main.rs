#![allow(dead_code)]
//! vcheck - deterministic-simulation checks for mini-mcmc.
//!
//!   vcheck <PROPERTY> <quick|thorough>      run the check (parent: forks worker processes)
//!   vcheck --replay <file>                  re-execute exactly one recorded run
//!   vcheck --child <PROPERTY> <tier> <seed> <k> <n>   (internal)

mod core;
mod craft;
mod gtargets;
mod props;
mod refmodels;
mod stubs;
mod zoo;

use crate::core::*;

fn main() {
    mcmc_sim::sim::install_quiet_panic_hook();
    let args: Vec<String> = std::env::args().collect();
    if std::env::var("VERIF_DEBUG_TARGETS").is_ok() { debug_targets(); return; }
    craft::self_check();
    let props = props::all();
    if args.len() >= 3 && args[1] == "--minimise" {
        // debugging aid: run the schedule-minimisation stage on a replay file and print the result
        let doc: serde_json::Value = serde_json::from_str(&std::fs::read_to_string(&args[2]).unwrap()).unwrap();
        let prop = props.iter().find(|p| p.id == doc["property"].as_str().unwrap()).unwrap();
        let s = prop.scenarios.iter().find(|s| s.name() == doc["scenario"].as_str().unwrap()).unwrap();
        let r = minimise_schedule(s.as_ref(), &doc["params"], doc["violation"]["class"].as_str().unwrap(), 30.0);
        println!("{}", r.map(|v| v["sim"]["replay_tasks"].to_string()).unwrap_or("None".into()));
        return;
    }
    if args.len() >= 3 && args[1] == "--replay" {
        std::process::exit(replay_main(&props, &args[2]));
    }
    if args.len() >= 7 && args[1] == "--child" {
        let Some(prop) = props.iter().find(|p| p.id == args[2]) else {
            eprintln!("HARNESS-ERROR: unknown property {}", args[2]);
            std::process::exit(2);
        };
        let tier = if args[3] == "thorough" { Tier::Thorough } else { Tier::Quick };
        let seed: u64 = args[4].parse().expect("seed");
        let k: u64 = args[5].parse().expect("k");
        let n: u64 = args[6].parse().expect("n");
        let agg = child_main(prop, tier, seed, k, n);
        println!("CHILD-RESULT {}", agg.to_json());
        std::process::exit(0);
    }
    if args.len() >= 3 {
        let Some(prop) = props.iter().find(|p| p.id == args[1]) else {
            eprintln!("HARNESS-ERROR: unknown property {}", args[1]);
            std::process::exit(2);
        };
        // the command line decides the tier; VERIF_TIER only when the argument is neither
        let tier = match args[2].as_str() {
            "thorough" => Tier::Thorough,
            "quick" => Tier::Quick,
            _ => match std::env::var("VERIF_TIER").ok().as_deref() {
                Some("thorough") => Tier::Thorough,
                _ => Tier::Quick,
            },
        };
        let seed = std::env::var("VERIF_SEED").ok().and_then(|s| s.trim().parse::<u64>().ok()).unwrap_or(DEFAULT_SEED);
        let workers = std::env::var("VERIF_WORKERS").ok().and_then(|s| s.parse::<u64>().ok()).unwrap_or(16).max(1);
        let src_fp = std::env::var("VERIF_SRC_HASH").unwrap_or_else(|_| "unknown".into());
        let opts = ParentOpts { tier, seed, workers, src_fp, wall_limit_s: tier.pick(900, 7200) };
        let exe = std::env::current_exe().expect("current_exe");
        std::process::exit(parent_main(prop, &exe, &opts));
    }
    eprintln!("usage: vcheck <PROPERTY> <quick|thorough> | --replay <file>");
    std::process::exit(2);
}

#[allow(dead_code)]
pub fn debug_targets() {
    use burn::prelude::*;
    use crate::gtargets::*;
    use crate::zoo::BF64;
    let mut g = crate::core::Gen::new(5);
    for kind in [GKind::StudentT, GKind::Quartic, GKind::Funnel, GKind::Gauss] {
        let mut t = if kind == GKind::Gauss { GTarget::gauss(&mut g, 3, 4.0) } else { GTarget::new(kind.clone(), 3) };
        t.nu = 2.7182818;
        let x = vec![0.0720297, 1.0555135, 4.0253916];
        let xt = Tensor::<BF64, 2>::from_data(TensorData::new(x.clone(), [1, 3]), &Default::default());
        let lp = t.batch(xt).to_data().convert::<f64>().to_vec::<f64>().unwrap()[0];
        println!("{:?}: burn {:.17} analytic {:.17} rel {:e}", kind, lp, t.logp(&x), (lp - t.logp(&x)).abs() / t.logp(&x).abs());
        let xt = Tensor::<BF64, 2>::from_data(TensorData::new(x.clone(), [1, 3]), &Default::default()).require_grad();
        let l = t.batch(xt.clone());
        let gr = xt.grad(&l.backward()).unwrap().to_data().convert::<f64>().to_vec::<f64>().unwrap();
        println!("   grad burn {:?} analytic {:?}", gr, t.grad(&x));
    }
}
