fn main() {
    // the verification guard, for this package only
    println!("cargo:rustc-cfg=mini_mcmc_verif");
    println!("cargo:rustc-check-cfg=cfg(mini_mcmc_verif)");
    println!("cargo:rerun-if-changed=build.rs");
    // content fingerprint of /repo/src computed by bin/check: a changed tree always rebuilds
    println!("cargo:rerun-if-env-changed=VERIF_SRC_HASH");
    let h = std::env::var("VERIF_SRC_HASH").unwrap_or_else(|_| "unset".into());
    println!("cargo:rustc-env=VERIF_SRC_HASH={h}");
}
